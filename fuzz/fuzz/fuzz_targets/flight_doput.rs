#![no_main]
//! C17: arbitrary bytes -> FlightData frames -> FlightIngestService::process_stream.
//! Frame layout: [u16 header_len][u16 body_len][header][body] repeated.  Oracle: an
//! error or a row count, never a panic.
use libfuzzer_sys::fuzz_target;
use std::sync::{Arc, OnceLock};

static RT: OnceLock<tokio::runtime::Runtime> = OnceLock::new();

fn rt() -> &'static tokio::runtime::Runtime {
    RT.get_or_init(|| tokio::runtime::Builder::new_current_thread().enable_all().build().unwrap())
}

fuzz_target!(|data: &[u8]| {
    guarded(std::panic::AssertUnwindSafe(|| {
        let mut frames = Vec::new();
        let mut p = 0usize;
        while p + 4 <= data.len() && frames.len() < 8 {
            let hl = u16::from_le_bytes([data[p], data[p + 1]]) as usize;
            let bl = u16::from_le_bytes([data[p + 2], data[p + 3]]) as usize;
            p += 4;
            let h = &data[p..(p + hl).min(data.len())];
            p = (p + hl).min(data.len());
            let b = &data[p..(p + bl).min(data.len())];
            p = (p + bl).min(data.len());
            frames.push(arrow_flight::FlightData { flight_descriptor: None, data_header: bytes::Bytes::copy_from_slice(h), app_metadata: bytes::Bytes::new(), data_body: bytes::Bytes::copy_from_slice(b) });
        }
        // a fresh receiver per input: accepted batches are flushed into its in-memory store,
        // and state carried from one input to the next would make failures unreproducible
        let _ = rt().block_on(async {
            let ing = csverif::props::c17::receiver().await.ingester;
            let svc = cardinalsin::api::ingest::flight_ingest::FlightIngestService::new(Arc::clone(&ing));
            svc.process_stream(frames.into_iter()).await
        });
    }));
});

/// libfuzzer-sys installs a panic hook that aborts the process, which would turn panics that
/// the code under test catches itself (e.g. around the Arrow IPC decoder) into crashes.
/// Replace it by a recording hook; anything that *escapes* the target body aborts explicitly.
fn guarded(f: impl FnOnce() + std::panic::UnwindSafe) {
    static INIT: std::sync::Once = std::sync::Once::new();
    INIT.call_once(|| {
        std::panic::set_hook(Box::new(|info| {
            eprintln!("panicked: {}", info);
        }));
    });
    if std::panic::catch_unwind(f).is_err() {
        eprintln!("VIOLATION: a panic escaped the receiver / the oracle failed");
        std::process::abort();
    }
}
