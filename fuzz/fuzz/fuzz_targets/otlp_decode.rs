#![no_main]
//! C17: prost-decode an OTLP export request from arbitrary bytes, convert, and
//! check one row per data point.
use libfuzzer_sys::fuzz_target;
use opentelemetry_proto::tonic::collector::metrics::v1::ExportMetricsServiceRequest;
use prost::Message;

fuzz_target!(|data: &[u8]| {
    if let Ok(req) = ExportMetricsServiceRequest::decode(data) {
        let points = cardinalsin::api::ingest::otlp::export_request_to_data_points(&req);
        let n = points.len();
        match cardinalsin::api::ingest::otlp::export_request_to_arrow(&req) {
            Ok(batch) => assert_eq!(batch.num_rows(), n, "one row per data point"),
            Err(_) => {}
        }
    }
});
