#![no_main]
//! C17: prost-decode an OTLP export request from arbitrary bytes, convert, and
//! check one row per data point.
use libfuzzer_sys::fuzz_target;
use opentelemetry_proto::tonic::collector::metrics::v1::ExportMetricsServiceRequest;
use prost::Message;

fuzz_target!(|data: &[u8]| {
    guarded(std::panic::AssertUnwindSafe(|| {
        if let Ok(req) = ExportMetricsServiceRequest::decode(data) {
            let points = cardinalsin::api::ingest::otlp::export_request_to_data_points(&req);
            let n = points.len();
            match cardinalsin::api::ingest::otlp::export_request_to_arrow(&req) {
                Ok(batch) => assert_eq!(batch.num_rows(), n, "one row per data point"),
                Err(_) => {}
            }
        }
    }));
});

/// libfuzzer-sys installs a panic hook that aborts the process, which would turn panics that
/// the code under test catches itself (e.g. around the Arrow IPC decoder) into crashes.
/// Replace it by a recording hook; anything that *escapes* the target body aborts explicitly.
fn guarded(f: impl FnOnce() + std::panic::UnwindSafe) {
    static INIT: std::sync::Once = std::sync::Once::new();
    INIT.call_once(|| {
        std::panic::set_hook(Box::new(|info| {
            eprintln!("panicked: {}", info);
        }));
    });
    if std::panic::catch_unwind(f).is_err() {
        eprintln!("VIOLATION: a panic escaped the receiver / the oracle failed");
        std::process::abort();
    }
}
