#![no_main]
//! C12: bytes -> (columns with rows / statistics, predicate tree) -> the proptest check's oracle.
use arbitrary::{Arbitrary, Unstructured};
use csverif::props::c12::{exec_box, Case, Col, Kind, Lit, StatsMode, P};
use libfuzzer_sys::fuzz_target;

fn lit(u: &mut Unstructured) -> arbitrary::Result<Lit> {
    Ok(match u8::arbitrary(u)? % 8 {
        0..=4 => Lit::Own(i8::arbitrary(u)? % 13),
        5 => Lit::Cross(i8::arbitrary(u)? % 13),
        6 => Lit::Null,
        _ => Lit::Bool(bool::arbitrary(u)?),
    })
}

fn pred(u: &mut Unstructured, depth: u8) -> arbitrary::Result<P> {
    let c = u8::arbitrary(u)? % 3;
    let k = u8::arbitrary(u)? % if depth == 0 { 9 } else { 12 };
    Ok(match k {
        0 => P::Eq(c, lit(u)?),
        1 => P::NotEq(c, lit(u)?),
        2 => P::Lt(c, lit(u)?),
        3 => P::LtEq(c, lit(u)?),
        4 => P::Gt(c, lit(u)?),
        5 => P::GtEq(c, lit(u)?),
        6 => P::In(c, vec![lit(u)?, lit(u)?]),
        7 => P::NotIn(c, vec![lit(u)?]),
        8 => P::Between(c, lit(u)?, lit(u)?),
        9 => P::And(Box::new(pred(u, depth - 1)?), Box::new(pred(u, depth - 1)?)),
        10 => P::Or(Box::new(pred(u, depth - 1)?), Box::new(pred(u, depth - 1)?)),
        _ => P::Not(Box::new(pred(u, depth - 1)?)),
    })
}

fuzz_target!(|data: &[u8]| {
    guarded(std::panic::AssertUnwindSafe(|| {
        let mut u = Unstructured::new(data);
        let mut cols = Vec::new();
        for _ in 0..3 {
            let kind = match u8::arbitrary(&mut u).unwrap_or(0) % 3 {
                0 => Kind::Int,
                1 => Kind::Float,
                _ => Kind::Str,
            };
            let n = 1 + u8::arbitrary(&mut u).unwrap_or(0) % 6;
            let rows = (0..n).map(|_| match i8::arbitrary(&mut u).unwrap_or(0) { -128 => None, v => Some(v % 13) }).collect();
            let stats = match u8::arbitrary(&mut u).unwrap_or(0) % 10 {
                0 => StatsMode::Missing,
                1 => StatsMode::Mistyped(u8::arbitrary(&mut u).unwrap_or(0)),
                _ => StatsMode::Exact,
            };
            cols.push(Col { kind, rows, stats });
        }
        let p = match pred(&mut u, 3) {
            Ok(p) => p,
            Err(_) => return,
        };
        let case = Case { cols, pred: p };
        let out = exec_box(&case);
        if let Some(f) = out.failure {
            panic!("C12 violation {} :: {} :: case {}", f.signature, f.message, serde_json::to_string(&case).unwrap());
        }
    }));
});

/// libfuzzer-sys installs a panic hook that aborts the process, which would turn panics that
/// the code under test catches itself (e.g. around the Arrow IPC decoder) into crashes.
/// Replace it by a recording hook; anything that *escapes* the target body aborts explicitly.
fn guarded(f: impl FnOnce() + std::panic::UnwindSafe) {
    static INIT: std::sync::Once = std::sync::Once::new();
    INIT.call_once(|| {
        std::panic::set_hook(Box::new(|info| {
            eprintln!("panicked: {}", info);
        }));
    });
    if std::panic::catch_unwind(f).is_err() {
        eprintln!("VIOLATION: a panic escaped the receiver / the oracle failed");
        std::process::abort();
    }
}
