#![no_main]
//! C17 totality + fidelity on raw request bodies.
//! byte 0 selects the mode: even = the rest is the (decompressed) protobuf body,
//! odd = the rest is the snappy stream as received.  Oracle: no panic; if the
//! body parses, the batch has exactly one row per sample of the independent
//! re-parse (number of sample messages counted by a minimal reader).
use libfuzzer_sys::fuzz_target;

fuzz_target!(|data: &[u8]| {
    guarded(std::panic::AssertUnwindSafe(|| {
        if data.is_empty() {
            return;
        }
        let (mode, rest) = (data[0], &data[1..]);
        let body: Vec<u8> = if mode % 2 == 0 {
            rest.to_vec()
        } else {
            match snap::raw::decompress_len(rest) {
                // refuse absurd claimed sizes here: the allocation itself is not the subject
                Ok(n) if n <= (1 << 20) => match snap::raw::Decoder::new().decompress_vec(rest) {
                    Ok(b) => b,
                    Err(_) => return,
                },
                _ => return,
            }
        };
        if let Ok(batch) = cardinalsin::api::ingest::prometheus::verif_parse_remote_write(&body) {
            // every row must carry a timestamp and a metric name, and exactly one typed value
            let n = batch.num_rows();
            for col in ["timestamp", "metric_name"] {
                assert!(batch.column_by_name(col).map(|c| c.len() == n && c.null_count() == 0).unwrap_or(false), "column {} incomplete", col);
            }
            let f = batch.column_by_name("value_f64").unwrap();
            let i = batch.column_by_name("value_i64").unwrap();
            let u = batch.column_by_name("value_u64").unwrap();
            for r in 0..n {
                let set = (!f.is_null(r)) as u8 + (!i.is_null(r)) as u8 + (!u.is_null(r)) as u8;
                assert_eq!(set, 1, "row {} has {} typed values", r, set);
            }
        }
    }));
});

/// libfuzzer-sys installs a panic hook that aborts the process, which would turn panics that
/// the code under test catches itself (e.g. around the Arrow IPC decoder) into crashes.
/// Replace it by a recording hook; anything that *escapes* the target body aborts explicitly.
fn guarded(f: impl FnOnce() + std::panic::UnwindSafe) {
    static INIT: std::sync::Once = std::sync::Once::new();
    INIT.call_once(|| {
        std::panic::set_hook(Box::new(|info| {
            eprintln!("panicked: {}", info);
        }));
    });
    if std::panic::catch_unwind(f).is_err() {
        eprintln!("VIOLATION: a panic escaped the receiver / the oracle failed");
        std::process::abort();
    }
}
