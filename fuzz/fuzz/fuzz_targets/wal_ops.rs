#![no_main]
//! C05: bytes -> the same op list the proptest check uses -> same interpreter and oracle.
use arbitrary::{Arbitrary, Unstructured};
use csverif::props::c05::{exec, Case, Op};
use libfuzzer_sys::fuzz_target;

fn op(u: &mut Unstructured) -> arbitrary::Result<Op> {
    Ok(match u8::arbitrary(u)? % 12 {
        0..=3 => Op::Append { rows: u8::arbitrary(u)?, cols: u8::arbitrary(u)? },
        4 => Op::TruncateAcked { pick: u16::arbitrary(u)? },
        5 => Op::TruncateStartup,
        6 => Op::PersistFlushed { pick: u16::arbitrary(u)? },
        7 => Op::Reopen,
        8..=10 => Op::CrashDuringAppend { rows: u8::arbitrary(u)?, cols: u8::arbitrary(u)?, cut: u16::arbitrary(u)? },
        _ => Op::CrashDuringPersist { pick: u16::arbitrary(u)?, keep: u8::arbitrary(u)? },
    })
}

fuzz_target!(|data: &[u8]| {
    guarded(std::panic::AssertUnwindSafe(|| {
        let mut u = Unstructured::new(data);
        let seg = u8::arbitrary(&mut u).unwrap_or(0);
        let mut ops = Vec::new();
        while !u.is_empty() && ops.len() < 40 {
            match op(&mut u) {
                Ok(o) => ops.push(o),
                Err(_) => break,
            }
        }
        if ops.is_empty() {
            return;
        }
        let case = Case { seg, ops };
        let out = exec(&case);
        if let Some(f) = out.failure {
            panic!("C05 violation {} :: {} :: case {}", f.signature, f.message, serde_json::to_string(&case).unwrap());
        }
    }));
});

/// libfuzzer-sys installs a panic hook that aborts the process, which would turn panics that
/// the code under test catches itself (e.g. around the Arrow IPC decoder) into crashes.
/// Replace it by a recording hook; anything that *escapes* the target body aborts explicitly.
fn guarded(f: impl FnOnce() + std::panic::UnwindSafe) {
    static INIT: std::sync::Once = std::sync::Once::new();
    INIT.call_once(|| {
        std::panic::set_hook(Box::new(|info| {
            eprintln!("panicked: {}", info);
        }));
    });
    if std::panic::catch_unwind(f).is_err() {
        eprintln!("VIOLATION: a panic escaped the receiver / the oracle failed");
        std::process::abort();
    }
}
