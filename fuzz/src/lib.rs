// placeholder
