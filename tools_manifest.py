#!/usr/bin/env python3
"""Regenerates MANIFEST.json from the table below (keeps it valid at all times)."""
import json, subprocess
ALL = ["C%02d" % i for i in range(1, 21)]
T = {
 "C02": ("exploration", "2-6 real ObjectStoreMetadataClients on a deterministic object-store simulator; generated schedules at object-store-request granularity (with victim bias for retry exhaustion / create races); linearisation witness in commit order of conditional PUTs, every catalog version ever written checked for index/map agreement, failed ops committed nothing.", "Trusted: SimStore's conformity to conditional-write semantics (mirrors object_store InMemory); requests atomic.", "property-based testing (proptest) with generated request schedules against a reference model (linearisation witness)", "6 C02"),
 "C07": ("exploration", "Generated register/re-register/delete/compaction/query histories applied to both metadata back-ends and compared with a reference interval map and with each other; boundary-biased end points.", "Inverted ranges: empty set or literal inequality accepted.", "model-based property testing (proptest) + differential between the two back-ends", "6 C07"),
 "C08": ("exploration", "2-5 real metadata clients on the simulator with generated schedules and generated clock advances past the lease TTL; every op judged against the lease-file version it read and the one it committed; every version checked for exclusivity; LocalMetadataClient by sequential histories with the same transition oracle.", "Time advance = shifting stored instants (sound because the code only compares stored instants with now; in-flight RMWs restart across a shift); +-3 s ambiguity window; one shared clock.", "stateful property testing (proptest) with generated schedules and a transition oracle over every lease-file version", "6 C08"),
 "C12": ("exploration", "Generated predicate trees x generated chunks with true/missing/mistyped statistics; a 'prune' verdict is refuted by an exact satisfiability search over the statistics box (complete candidate set for comparison trees) and by get_chunks_with_predicates on catalogs carrying those statistics.", "Trusted: the harness' three-valued reference evaluator; numeric mixing bounded to +-2^53.", "property-based testing (proptest): soundness implication checked against brute-force satisfiability over the statistics box", "6 C12"),
 "C13": ("exploration", "2-5 real object-store metadata clients with generated schedules: versions of each shard object must carry generations 1,2,3..., each success maps to exactly one version with generation expected+1 and the caller's body, at most one winner per (shard, expected); LocalMetadataClient by sequential histories vs a model plus a sampled multi-thread race; ShardRouter vs model.", "Real-thread interleavings of LocalMetadataClient are sampled, not controlled.", "property-based testing (proptest) with generated request schedules; invariant over the version history", "6 C13"),
 "C19": ("exploration", "Generated membership/health/load/rebalance histories interleaved with route_write for all three strategies against a registry model; each route under a poll budget (deterministic non-termination detection).", "Single-threaded histories; tokio cooperative budget makes a never-blocking loop yield.", "stateful property testing (proptest) against a reference model, poll-budget hang oracle", "6 C19"),
}
NOT_BUILT_REASON = "check not built yet in this session (no technique obstacle; see DESIGN.md section 6)"
def main():
    hooks = subprocess.run(["git","-C","/repo","log","--format=%h %s"],capture_output=True,text=True).stdout.splitlines()
    hook_commits = [l.split()[0] for l in hooks if l.split(' ',1)[1].startswith("verif hooks")]
    checks=[]
    for pid in ALL:
        if pid not in T: continue
        cat,text,note,tech,ref = T[pid]
        checks.append({"property_id":pid,"quick_cmd":f"./check {pid} quick","thorough_cmd":f"./check {pid} thorough","evidence_file":f"evidence/{pid}.json","replay_cmd_template":f"./check {pid} --replay {{path}}","engine":"csverif","level_claimed":{"category":cat,"text":text,"design_ref":"DESIGN.md section "+ref},"level_note":note,"technique":tech})
    m={"version":1,"setup_cmd":"./check --build",
       "hooks":{"guard":"cargo feature verif-hooks","enable":"harness/Cargo.toml depends on cardinalsin = { path = \"/repo\", features = [\"verif-hooks\"] }; ./check rebuilds it from /repo's working tree on every invocation","baseline_off_cmd":"cd /repo && cargo test --workspace --no-fail-fast --offline","source_commits":hook_commits[::-1],"add_only":True},
       "engines":[{"name":"csverif","path":"harness","serves_properties":sorted(T.keys()),"kind_free_text":"Rust harness crate: proptest TestRunner used as a library (fixed seeds, shrinking), sharded over worker processes; deterministic object-store simulator (SimStore) with request gates, faults, version history and a schedule driver on a paused tokio clock; replay of saved cases; known-findings classification"}],
       "checks":checks,
       "not_applicable":[{"property_id":p,"reason":NOT_BUILT_REASON} for p in ALL if p not in T],
       "notes":"Exit 0 = held, 1 = VIOLATION line, 2 = inconclusive (build failure / watchdog). VERIF_SEED and VERIF_TIER honoured. Known findings: known_findings.json."}
    json.dump(m,open("/verif/MANIFEST.json","w"),indent=1)
main()
