#!/opt/veriftools/pyvenv/bin/python
import json,jsonschema,sys,glob
m=json.load(open('/verif/MANIFEST.json'));s=json.load(open('/root/.vp/MANIFEST.schema.json'));jsonschema.validate(m,s)
es=json.load(open('/root/.vp/EVIDENCE.schema.json'))
for f in sorted(glob.glob('/verif/evidence/*.json')):
    jsonschema.validate(json.load(open(f)),es)
    print("ok",f)
print("manifest ok; claimed:",[c['property_id'] for c in m['checks']])
