//! `SimMetadata`: wraps any `MetadataClient` with the simulator's gate so that
//! every trait call is a scheduling / fault point attributed to a node.

use crate::sim::*;
use async_trait::async_trait;
use cardinalsin::ingester::ChunkMetadata;
use cardinalsin::metadata::predicates::ColumnPredicate;
use cardinalsin::metadata::{CompactionJob, CompactionLease, CompactionLeases, CompactionStatus, MetadataClient, SplitState, TimeIndexEntry, TimeRange};
use cardinalsin::sharding::{ShardMetadata, SplitPhase};
use cardinalsin::{Error, Result};
use std::sync::Arc;

pub struct SimMetadata {
    pub node: u32,
    pub core: Arc<SimCore>,
    pub inner: Arc<dyn MetadataClient>,
    /// only mutating calls are gated when false
    pub gate_reads: bool,
}

impl SimMetadata {
    pub fn new(node: u32, core: Arc<SimCore>, inner: Arc<dyn MetadataClient>) -> Self {
        Self { node, core, inner, gate_reads: true }
    }
    fn desc(&self, name: &str, arg: &str) -> ReqDesc {
        ReqDesc { node: self.node, op: OpKind::Meta, path: arg.to_string(), detail: name.to_string() }
    }
    fn injected(name: &str) -> Error {
        Error::Metadata(format!("injected fault in {}", name))
    }
}

macro_rules! gated {
    ($self:ident, $name:expr, $arg:expr, $call:expr) => {{
        match $self.core.gated($self.desc($name, $arg), || async { $call.await }).await {
            Ok(r) => r,
            Err(()) => Err(SimMetadata::injected($name)),
        }
    }};
}
macro_rules! read {
    ($self:ident, $name:expr, $arg:expr, $call:expr) => {{
        if $self.gate_reads {
            gated!($self, $name, $arg, $call)
        } else {
            $call.await
        }
    }};
}

#[async_trait]
impl MetadataClient for SimMetadata {
    async fn register_chunk(&self, path: &str, metadata: &ChunkMetadata) -> Result<()> {
        gated!(self, "register_chunk", path, self.inner.register_chunk(path, metadata))
    }
    async fn get_chunks(&self, range: TimeRange) -> Result<Vec<TimeIndexEntry>> {
        read!(self, "get_chunks", "", self.inner.get_chunks(range))
    }
    async fn get_chunks_with_predicates(&self, range: TimeRange, predicates: &[ColumnPredicate]) -> Result<Vec<TimeIndexEntry>> {
        read!(self, "get_chunks_with_predicates", "", self.inner.get_chunks_with_predicates(range, predicates))
    }
    async fn get_chunk(&self, path: &str) -> Result<Option<ChunkMetadata>> {
        read!(self, "get_chunk", path, self.inner.get_chunk(path))
    }
    async fn delete_chunk(&self, path: &str) -> Result<()> {
        gated!(self, "delete_chunk", path, self.inner.delete_chunk(path))
    }
    async fn list_chunks(&self) -> Result<Vec<TimeIndexEntry>> {
        read!(self, "list_chunks", "", self.inner.list_chunks())
    }
    async fn get_l0_candidates(&self, min_count: usize) -> Result<Vec<Vec<String>>> {
        read!(self, "get_l0_candidates", "", self.inner.get_l0_candidates(min_count))
    }
    async fn get_level_candidates(&self, level: usize, target_size: usize) -> Result<Vec<Vec<String>>> {
        read!(self, "get_level_candidates", "", self.inner.get_level_candidates(level, target_size))
    }
    async fn create_compaction_job(&self, job: CompactionJob) -> Result<()> {
        gated!(self, "create_compaction_job", "", self.inner.create_compaction_job(job.clone()))
    }
    async fn complete_compaction(&self, source_chunks: &[String], target_chunk: &str) -> Result<()> {
        gated!(self, "complete_compaction", target_chunk, self.inner.complete_compaction(source_chunks, target_chunk))
    }
    async fn publish_compaction(&self, source_chunks: &[String], target: &ChunkMetadata) -> Result<()> {
        gated!(self, "publish_compaction", &target.path, self.inner.publish_compaction(source_chunks, target))
    }
    async fn update_compaction_status(&self, job_id: &str, status: CompactionStatus) -> Result<()> {
        gated!(self, "update_compaction_status", "", self.inner.update_compaction_status(job_id, status))
    }
    async fn get_pending_compaction_jobs(&self) -> Result<Vec<CompactionJob>> {
        read!(self, "get_pending_compaction_jobs", "", self.inner.get_pending_compaction_jobs())
    }
    async fn cleanup_completed_jobs(&self, max_age_secs: i64) -> Result<usize> {
        gated!(self, "cleanup_completed_jobs", "", self.inner.cleanup_completed_jobs(max_age_secs))
    }
    async fn start_split(&self, old_shard: &str, new_shards: Vec<String>, split_point: Vec<u8>) -> Result<()> {
        gated!(self, "start_split", old_shard, self.inner.start_split(old_shard, new_shards.clone(), split_point.clone()))
    }
    async fn get_split_state(&self, shard_id: &str) -> Result<Option<SplitState>> {
        read!(self, "get_split_state", shard_id, self.inner.get_split_state(shard_id))
    }
    async fn update_split_progress(&self, shard_id: &str, progress: f64, phase: SplitPhase) -> Result<()> {
        gated!(self, "update_split_progress", shard_id, self.inner.update_split_progress(shard_id, progress, phase))
    }
    async fn complete_split(&self, old_shard: &str) -> Result<()> {
        gated!(self, "complete_split", old_shard, self.inner.complete_split(old_shard))
    }
    async fn get_chunks_for_shard(&self, shard_id: &str) -> Result<Vec<TimeIndexEntry>> {
        read!(self, "get_chunks_for_shard", shard_id, self.inner.get_chunks_for_shard(shard_id))
    }
    async fn get_shard_metadata(&self, shard_id: &str) -> Result<Option<ShardMetadata>> {
        read!(self, "get_shard_metadata", shard_id, self.inner.get_shard_metadata(shard_id))
    }
    async fn update_shard_metadata(&self, shard_id: &str, metadata: &ShardMetadata, expected_generation: u64) -> Result<()> {
        gated!(self, "update_shard_metadata", shard_id, self.inner.update_shard_metadata(shard_id, metadata, expected_generation))
    }
    async fn acquire_lease(&self, node_id: &str, chunks: &[String], level: u32) -> Result<CompactionLease> {
        gated!(self, "acquire_lease", "", self.inner.acquire_lease(node_id, chunks, level))
    }
    async fn complete_lease(&self, lease_id: &str) -> Result<()> {
        gated!(self, "complete_lease", lease_id, self.inner.complete_lease(lease_id))
    }
    async fn fail_lease(&self, lease_id: &str) -> Result<()> {
        gated!(self, "fail_lease", lease_id, self.inner.fail_lease(lease_id))
    }
    async fn renew_lease(&self, lease_id: &str) -> Result<()> {
        gated!(self, "renew_lease", lease_id, self.inner.renew_lease(lease_id))
    }
    async fn load_leases(&self) -> Result<CompactionLeases> {
        read!(self, "load_leases", "", self.inner.load_leases())
    }
    async fn scavenge_leases(&self) -> Result<usize> {
        gated!(self, "scavenge_leases", "", self.inner.scavenge_leases())
    }
    async fn active_split_new_shards(&self) -> Result<Vec<String>> {
        read!(self, "active_split_new_shards", "", self.inner.active_split_new_shards())
    }
    async fn has_active_split(&self) -> Result<bool> {
        read!(self, "has_active_split", "", self.inner.has_active_split())
    }
}
