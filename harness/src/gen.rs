//! Shared generators / builders for ingest batches.

use arrow_array::{ArrayRef, Float64Array, Int64Array, RecordBatch, StringArray, TimestampNanosecondArray};
use arrow_schema::{DataType, Field, Schema, TimeUnit};
use proptest::prelude::*;
use serde::{Deserialize, Serialize};
use std::sync::Arc;

pub const HOUR: i64 = 3_600_000_000_000;

#[derive(Clone, Debug, Serialize, Deserialize)]
pub struct RowSpec {
    /// offset from the case's base timestamp, in units of 7 minutes + jitter ns
    pub ts_step: u16,
    pub ts_jitter: i8,
    pub metric: u8,
    pub labels: [Option<u8>; 3],
    pub fval: Option<u8>,
    pub ival: Option<u8>,
}

#[derive(Clone, Debug, Serialize, Deserialize)]
pub struct BatchSpec {
    /// index into the schema table
    pub schema: u8,
    pub rows: Vec<RowSpec>,
}

pub const LABELS: [&str; 3] = ["host", "region", "zone_x"];
pub const METRICS: [&str; 3] = ["cpu", "mem", "disk.io"];
const STRS: [&str; 6] = ["", "a", "é✓", "host-1", "eu-west-1", "a-rather-long-label-value-0123456789"];
const F64S: [f64; 11] = [0.0, -0.0, f64::NAN, f64::INFINITY, f64::NEG_INFINITY, f64::MAX, f64::MIN_POSITIVE, 1.5, -2.25, 1e300, 42.0];
const I64S: [i64; 6] = [0, -1, i64::MAX, i64::MIN, 42, 1 << 53];

/// (timestamp type, label mask, has f64, has i64)
/// ts type: 0 = Int64, 1 = Timestamp(ns, None), 2 = Timestamp(ns, UTC)
pub const SCHEMAS: [(u8, u8, bool, bool); 6] = [(0, 0b011, true, false), (1, 0b011, true, false), (2, 0b001, true, true), (0, 0b111, true, true), (1, 0b000, false, true), (0, 0b011, true, true)];

pub fn ts_of(base: i64, r: &RowSpec) -> i64 {
    // at most 72 h of span: 617 steps of 7 minutes
    base + (r.ts_step as i64 % 617) * 7 * 60 * 1_000_000_000 + r.ts_jitter as i64
}

/// Build a record batch; `rid0` is the unique id of the first row.
pub fn build_batch(spec: &BatchSpec, base: i64, rid0: i64, force_ts_type: Option<u8>) -> RecordBatch {
    let (ts_type, mask, has_f, has_i) = SCHEMAS[spec.schema as usize % SCHEMAS.len()];
    let ts_type = force_ts_type.unwrap_or(ts_type);
    let n = spec.rows.len();
    let ts: Vec<i64> = spec.rows.iter().map(|r| ts_of(base, r)).collect();
    let mut fields: Vec<Field> = Vec::new();
    let mut cols: Vec<ArrayRef> = Vec::new();
    match ts_type {
        0 => {
            fields.push(Field::new("timestamp", DataType::Int64, false));
            cols.push(Arc::new(Int64Array::from(ts)));
        }
        1 => {
            fields.push(Field::new("timestamp", DataType::Timestamp(TimeUnit::Nanosecond, None), false));
            cols.push(Arc::new(TimestampNanosecondArray::from(ts)));
        }
        _ => {
            fields.push(Field::new("timestamp", DataType::Timestamp(TimeUnit::Nanosecond, Some("UTC".into())), false));
            cols.push(Arc::new(TimestampNanosecondArray::from(ts).with_timezone("UTC")));
        }
    }
    fields.push(Field::new("metric_name", DataType::Utf8, false));
    cols.push(Arc::new(StringArray::from(spec.rows.iter().map(|r| METRICS[r.metric as usize % METRICS.len()]).collect::<Vec<_>>())));
    for (li, name) in LABELS.iter().enumerate() {
        if mask & (1 << li) != 0 {
            fields.push(Field::new(*name, DataType::Utf8, true));
            cols.push(Arc::new(StringArray::from(spec.rows.iter().map(|r| r.labels[li].map(|v| STRS[v as usize % STRS.len()])).collect::<Vec<_>>())));
        }
    }
    if has_f {
        fields.push(Field::new("value_f64", DataType::Float64, true));
        cols.push(Arc::new(Float64Array::from(spec.rows.iter().map(|r| r.fval.map(|v| F64S[v as usize % F64S.len()])).collect::<Vec<_>>())));
    }
    if has_i {
        fields.push(Field::new("value_i64", DataType::Int64, true));
        cols.push(Arc::new(Int64Array::from(spec.rows.iter().map(|r| r.ival.map(|v| I64S[v as usize % I64S.len()])).collect::<Vec<_>>())));
    }
    fields.push(Field::new("rid", DataType::Int64, false));
    cols.push(Arc::new(Int64Array::from((0..n as i64).map(|i| rid0 + i).collect::<Vec<_>>())));
    RecordBatch::try_new(Arc::new(Schema::new(fields)), cols).expect("batch")
}

pub fn row_spec() -> impl Strategy<Value = RowSpec> {
    (
        any::<u16>(),
        prop_oneof![3 => Just(0i8), 1 => any::<i8>()],
        0u8..3,
        [prop::option::weighted(0.8, 0u8..6), prop::option::weighted(0.8, 0u8..6), prop::option::weighted(0.8, 0u8..6)],
        prop::option::weighted(0.9, 0u8..11),
        prop::option::weighted(0.9, 0u8..6),
    )
        .prop_map(|(ts_step, ts_jitter, metric, labels, fval, ival)| RowSpec { ts_step, ts_jitter, metric, labels, fval, ival })
}

pub fn batch_spec(max_rows: usize) -> impl Strategy<Value = BatchSpec> {
    (prop_oneof![4 => Just(0u8), 2 => Just(5u8), 1 => 0u8..6], prop::collection::vec(row_spec(), 1..=max_rows)).prop_map(|(schema, rows)| BatchSpec { schema, rows })
}

/// base timestamps: any sign, |ts| <= 2^62
pub fn base_ts() -> impl Strategy<Value = i64> {
    prop_oneof![
        3 => Just(1_700_000_000_000_000_000i64),
        1 => Just(0i64),
        1 => Just(-5 * 24 * HOUR),
        1 => Just(-HOUR - 1),
        1 => Just((1i64 << 62) - 80 * HOUR),
        1 => Just(-(1i64 << 62)),
        1 => (-1000i64..1000).prop_map(|k| k * HOUR - 1),
    ]
}
