//! Query-side environment: datasets ingested through the real Ingester, query
//! nodes, and the reference evaluator (same SQL over a MemTable of all rows).

use crate::rows::*;
use arrow_array::{ArrayRef, Float64Array, Int64Array, RecordBatch, StringArray, TimestampNanosecondArray};
use arrow_schema::{DataType, Field, Schema, SchemaRef, TimeUnit};
use cardinalsin::ingester::{Ingester, IngesterConfig, WalConfig};
use cardinalsin::metadata::{LocalMetadataClient, MetadataClient, ObjectStoreMetadataClient, ObjectStoreMetadataConfig};
use cardinalsin::query::{QueryConfig, QueryNode};
use cardinalsin::schema::MetricSchema;
use cardinalsin::{CloudProvider, StorageConfig};
use datafusion::datasource::MemTable;
use datafusion::prelude::SessionContext;
use object_store::ObjectStore;
use proptest::prelude::*;
use serde::{Deserialize, Serialize};
use std::sync::Arc;

pub const MIN: i64 = 60_000_000_000;
pub const HOUR: i64 = 60 * MIN;

#[derive(Clone, Debug, Serialize, Deserialize)]
pub struct QRow {
    /// minutes after the dataset's start
    pub minute: u16,
    pub jitter: i8,
    pub metric: u8,
    pub host: Option<u8>,
    /// label outside the built-in default schema
    pub zone: Option<u8>,
    pub value: i8,
    /// which flush group (chunk) the row goes to
    pub chunk: u8,
}

#[derive(Clone, Debug, Serialize, Deserialize)]
pub struct Dataset {
    /// 0 = Int64 timestamps, 1 = Timestamp(ns)
    pub ts_type: u8,
    /// age of the newest possible row relative to the wall clock: index into AGES
    pub age: u8,
    /// span of the data in hours (1..=6)
    pub span_h: u8,
    pub rows: Vec<QRow>,
    /// include the non-default label column in the schema
    pub custom_label: bool,
    /// 0 = LocalMetadataClient, 1 = ObjectStoreMetadataClient
    pub backend: u8,
    /// 1 = the series written to every other chunk carry no `host` label at all: those chunks are
    /// flushed without that column (label sets differ between series; the ingester flushes on every
    /// schema change), so the stored chunks do not all have the same columns
    #[serde(default)]
    pub hetero: u8,
    /// the data lies before the epoch (negative timestamps), ending seven minutes before it
    #[serde(default)]
    pub pre_epoch: bool,
}

pub const AGES_MIN: [i64; 4] = [2, 95, 5 * 60, 30 * 60];
pub const QMETRICS: [&str; 3] = ["cpu", "mem", "disk"];
pub const HOSTS: [&str; 4] = ["a", "b", "web-1", "é"];
pub const ZONES: [&str; 3] = ["z1", "z2", "z3"];

impl Dataset {
    pub fn span_min(&self) -> i64 {
        (1 + self.span_h as i64 % 6) * 60
    }
    /// start of the data (ns), given the wall clock `now`: all rows lie in [start, start + span]
    pub fn start(&self, now: i64) -> i64 {
        let end = if self.pre_epoch { -7 * MIN } else { now - AGES_MIN[self.age as usize % AGES_MIN.len()] * MIN };
        // align to a minute so that bounds are representable in every literal style
        let end = end - end.rem_euclid(MIN);
        end - self.span_min() * MIN
    }
    pub fn ts_of(&self, now: i64, r: &QRow) -> i64 {
        self.start(now) + (r.minute as i64 % (self.span_min() + 1)) * MIN + if r.jitter == 0 { 0 } else { (r.jitter as i64).rem_euclid(3) - 1 }
    }
    pub fn schema(&self) -> SchemaRef {
        let mut f = vec![
            if self.ts_type % 2 == 0 { Field::new("timestamp", DataType::Int64, false) } else { Field::new("timestamp", DataType::Timestamp(TimeUnit::Nanosecond, Some("UTC".into())), false) },
            Field::new("metric_name", DataType::Utf8, false),
            Field::new("host", DataType::Utf8, true),
        ];
        if self.custom_label {
            f.push(Field::new("zone_x", DataType::Utf8, true));
        }
        f.push(Field::new("value_f64", DataType::Float64, true));
        f.push(Field::new("rid", DataType::Int64, false));
        Arc::new(Schema::new(f))
    }
    /// one record batch per chunk group, in group order
    pub fn batches(&self, now: i64) -> Vec<RecordBatch> {
        let mut groups: std::collections::BTreeMap<u8, Vec<(usize, &QRow)>> = Default::default();
        for (i, r) in self.rows.iter().enumerate() {
            groups.entry(r.chunk % 6).or_default().push((i, r));
        }
        groups
            .iter()
            .map(|(g, rows)| {
                let without_host = self.hetero % 2 == 1 && g % 2 == 1;
                let ts: Vec<i64> = rows.iter().map(|(_, r)| self.ts_of(now, r)).collect();
                let mut cols: Vec<ArrayRef> = vec![
                    if self.ts_type % 2 == 0 { Arc::new(Int64Array::from(ts)) as ArrayRef } else { Arc::new(TimestampNanosecondArray::from(ts).with_timezone("UTC")) as ArrayRef },
                    Arc::new(StringArray::from(rows.iter().map(|(_, r)| QMETRICS[r.metric as usize % 3]).collect::<Vec<_>>())),
                ];
                if !without_host {
                    cols.push(Arc::new(StringArray::from(rows.iter().map(|(_, r)| r.host.map(|h| HOSTS[h as usize % 4])).collect::<Vec<_>>())));
                }
                if self.custom_label {
                    cols.push(Arc::new(StringArray::from(rows.iter().map(|(_, r)| r.zone.map(|z| ZONES[z as usize % 3])).collect::<Vec<_>>())));
                }
                cols.push(Arc::new(Float64Array::from(rows.iter().map(|(_, r)| Some(r.value as f64 / 4.0)).collect::<Vec<_>>())));
                cols.push(Arc::new(Int64Array::from(rows.iter().map(|(i, _)| *i as i64).collect::<Vec<_>>())));
                let schema = if without_host { Arc::new(Schema::new(self.schema().fields().iter().filter(|f| f.name() != "host").map(|f| f.as_ref().clone()).collect::<Vec<_>>())) } else { self.schema() };
                RecordBatch::try_new(schema, cols).unwrap()
            })
            .collect()
    }
}

pub fn storage_config() -> StorageConfig {
    StorageConfig { provider: CloudProvider::Memory, container: "verif".to_string(), tenant_id: "t".to_string() }
}

pub struct Env {
    pub store: Arc<dyn ObjectStore>,
    pub metadata: Arc<dyn MetadataClient>,
    pub all: Vec<RecordBatch>,
    pub schema: SchemaRef,
}

/// Ingest each batch as its own chunk (flush threshold 1 row per batch is
/// emulated by flushing through shutdown after every write group).
pub async fn ingest(store: Arc<dyn ObjectStore>, backend: u8, batches: &[RecordBatch], schema: SchemaRef) -> Result<Env, String> {
    let metadata: Arc<dyn MetadataClient> = if backend % 2 == 0 {
        Arc::new(LocalMetadataClient::new())
    } else {
        Arc::new(ObjectStoreMetadataClient::new(store.clone(), ObjectStoreMetadataConfig::default()))
    };
    for b in batches {
        let cfg = IngesterConfig { flush_row_count: b.num_rows().max(1), wal: WalConfig { enabled: false, ..Default::default() }, ..Default::default() };
        let ing = Ingester::new(cfg, store.clone(), metadata.clone(), storage_config(), MetricSchema::default_metrics());
        ing.write(b.clone()).await.map_err(|e| format!("ingest failed: {:?}", e))?;
        if ing.buffer_stats().await.row_count != 0 {
            return Err("ingester did not flush at the row threshold".into());
        }
    }
    // what was ingested, as one table: a column a batch does not have is NULL in its rows
    let all = batches
        .iter()
        .map(|b| {
            if b.schema() == schema {
                return b.clone();
            }
            let cols: Vec<ArrayRef> = schema.fields().iter().map(|f| b.column_by_name(f.name()).cloned().unwrap_or_else(|| arrow_array::new_null_array(f.data_type(), b.num_rows()))).collect();
            RecordBatch::try_new(schema.clone(), cols).expect("union schema")
        })
        .collect();
    Ok(Env { store, metadata, all, schema })
}

pub async fn query_node(env: &Env, adaptive: bool) -> Result<QueryNode, String> {
    let cfg = QueryConfig { l1_cache_size: 8 * 1024 * 1024, l2_cache_size: 0, l2_cache_dir: None, ..Default::default() };
    let mut node = QueryNode::new(cfg, env.store.clone(), env.metadata.clone(), storage_config()).await.map_err(|e| format!("QueryNode::new: {:?}", e))?;
    if adaptive {
        let ctl = Arc::new(cardinalsin::adaptive_index::AdaptiveIndexController::new(Default::default()));
        node = node.with_adaptive_indexing(ctl);
    }
    Ok(node)
}

/// Reference: the same SQL over an in-memory table of all ingested rows.
pub async fn reference(sql: &str, all: &[RecordBatch], schema: SchemaRef) -> Result<Vec<RecordBatch>, String> {
    let ctx = SessionContext::new();
    let table = MemTable::try_new(schema, vec![all.to_vec()]).map_err(|e| e.to_string())?;
    ctx.register_table("metrics", Arc::new(table)).map_err(|e| e.to_string())?;
    let df = ctx.sql(sql).await.map_err(|e| e.to_string())?;
    df.collect().await.map_err(|e| e.to_string())
}

pub fn result_rows(bs: &[RecordBatch]) -> Vec<String> {
    rows_of_all(bs)
}

pub fn qrow() -> impl Strategy<Value = QRow> {
    (any::<u16>(), prop_oneof![3 => Just(0i8), 1 => any::<i8>()], 0u8..3, prop::option::weighted(0.85, 0u8..4), prop::option::weighted(0.85, 0u8..3), -20i8..20, 0u8..6)
        .prop_map(|(minute, jitter, metric, host, zone, value, chunk)| QRow { minute, jitter, metric, host, zone, value, chunk })
}

pub fn dataset(max_rows: usize) -> impl Strategy<Value = Dataset> {
    (0u8..2, 0u8..4, 0u8..6, prop::collection::vec(qrow(), 4..max_rows), any::<bool>(), 0u8..2)
        .prop_map(|(ts_type, age, span_h, rows, custom_label, backend)| Dataset { ts_type, age, span_h, rows, custom_label, backend, hetero: 0, pre_epoch: false })
}

/// An object store whose every request takes one scheduler turn (a `yield_now` before it is
/// served): each request is then a point at which a caller's future can be dropped, as it is when
/// a client disconnects or a request times out.  Contents and answers are the inner store's.
#[derive(Debug)]
pub struct YieldStore(pub Arc<dyn ObjectStore>);

impl std::fmt::Display for YieldStore {
    fn fmt(&self, f: &mut std::fmt::Formatter<'_>) -> std::fmt::Result {
        write!(f, "YieldStore({})", self.0)
    }
}

#[async_trait::async_trait]
impl ObjectStore for YieldStore {
    async fn put_opts(&self, location: &object_store::path::Path, payload: object_store::PutPayload, opts: object_store::PutOptions) -> object_store::Result<object_store::PutResult> {
        tokio::task::yield_now().await;
        self.0.put_opts(location, payload, opts).await
    }
    async fn put_multipart_opts(&self, location: &object_store::path::Path, opts: object_store::PutMultipartOpts) -> object_store::Result<Box<dyn object_store::MultipartUpload>> {
        tokio::task::yield_now().await;
        self.0.put_multipart_opts(location, opts).await
    }
    async fn get_opts(&self, location: &object_store::path::Path, options: object_store::GetOptions) -> object_store::Result<object_store::GetResult> {
        tokio::task::yield_now().await;
        self.0.get_opts(location, options).await
    }
    async fn delete(&self, location: &object_store::path::Path) -> object_store::Result<()> {
        tokio::task::yield_now().await;
        self.0.delete(location).await
    }
    fn list(&self, prefix: Option<&object_store::path::Path>) -> futures::stream::BoxStream<'_, object_store::Result<object_store::ObjectMeta>> {
        self.0.list(prefix)
    }
    async fn list_with_delimiter(&self, prefix: Option<&object_store::path::Path>) -> object_store::Result<object_store::ListResult> {
        tokio::task::yield_now().await;
        self.0.list_with_delimiter(prefix).await
    }
    async fn copy(&self, from: &object_store::path::Path, to: &object_store::path::Path) -> object_store::Result<()> {
        tokio::task::yield_now().await;
        self.0.copy(from, to).await
    }
    async fn copy_if_not_exists(&self, from: &object_store::path::Path, to: &object_store::path::Path) -> object_store::Result<()> {
        tokio::task::yield_now().await;
        self.0.copy_if_not_exists(from, to).await
    }
}
