//! csverif — driver.
//!
//!   csverif run <ID> [--tier quick|thorough]        parent: replays, sharded exploration, evidence
//!   csverif worker <ID> <sub> <tier> <seed> <shard> <nshards> <out.json>
//!   csverif replay <ID> <file.json>                 re-execute one saved case (strict)
//!   csverif list

use csverif::core::*;
use csverif::props;
use std::collections::{BTreeMap, BTreeSet};
use std::path::{Path, PathBuf};
use std::process::{Command, Stdio};
use std::time::{Duration, Instant};

fn verif_root() -> PathBuf {
    std::env::var("VERIF_ROOT").map(PathBuf::from).unwrap_or_else(|_| PathBuf::from("/verif"))
}

fn load_known(id: &str) -> (KnownFindings, Vec<KnownFinding>) {
    let p = verif_root().join("known_findings.json");
    let all: KnownFindings = std::fs::read_to_string(&p).ok().and_then(|s| serde_json::from_str(&s).ok()).unwrap_or_default();
    let mine = all.findings.iter().filter(|f| f.property == id).cloned().collect();
    (all, mine)
}

fn main() {
    install_quiet_panic_hook();
    let args: Vec<String> = std::env::args().collect();
    if args.len() < 2 {
        eprintln!("usage: csverif run|worker|replay|list ...");
        std::process::exit(2);
    }
    match args[1].as_str() {
        "list" => {
            for p in props::all() {
                println!("{}", p.id);
            }
        }
        "seeds" => seeds(&args[2]),
        "worker" => worker(&args[2..]),
        "replay" => std::process::exit(replay_cmd(&args[2..])),
        "run" => std::process::exit(run_cmd(&args[2..])),
        other => {
            eprintln!("unknown command {}", other);
            std::process::exit(2);
        }
    }
}

fn find_prop(id: &str) -> PropDef {
    match props::all().into_iter().find(|p| p.id == id) {
        Some(p) => p,
        None => {
            eprintln!("unknown property {}", id);
            std::process::exit(2);
        }
    }
}

fn worker(a: &[String]) {
    let id = &a[0];
    let sub = &a[1];
    let tier = Tier::parse(&a[2]);
    let seed: u64 = a[3].parse().unwrap_or(0);
    let shard: u32 = a[4].parse().unwrap();
    let nshards: u32 = a[5].parse().unwrap();
    let out = &a[6];
    let prop = find_prop(id);
    let (_, mine) = load_known(id);
    let known: BTreeSet<String> = mine.iter().map(|f| f.signature.clone()).collect();
    let subs = (prop.subs)();
    let sc = subs.iter().find(|s| s.name() == sub).expect("unknown sub-check");
    let rep = sc.run_shard(tier, seed, shard, nshards, &known);
    std::fs::write(out, serde_json::to_vec(&rep).unwrap()).unwrap();
}

fn replay_cmd(a: &[String]) -> i32 {
    if a.len() < 2 {
        eprintln!("usage: csverif replay <ID> <file>");
        return 2;
    }
    let id = &a[0];
    let prop = find_prop(id);
    let text = match std::fs::read_to_string(&a[1]) {
        Ok(t) => t,
        Err(e) => {
            eprintln!("cannot read {}: {}", a[1], e);
            return 2;
        }
    };
    let rf: ReplayFile = match serde_json::from_str(&text) {
        Ok(r) => r,
        Err(e) => {
            eprintln!("bad replay file: {}", e);
            return 2;
        }
    };
    let subs = (prop.subs)();
    let sc = match subs.iter().find(|s| s.name() == rf.sub) {
        Some(s) => s,
        None => {
            eprintln!("unknown sub-check {}", rf.sub);
            return 2;
        }
    };
    // Cases whose SUT is internally nondeterministic (uuid paths, HashMap order)
    // may need several attempts; report the reproduction rate.
    let tries: u32 = std::env::var("VERIF_REPLAY_TRIES").ok().and_then(|s| s.parse().ok()).unwrap_or(1);
    let mut fails = 0;
    let mut last = None;
    for _ in 0..tries {
        match sc.replay(&rf.case) {
            Ok(o) => {
                if let Some(f) = o.failure {
                    fails += 1;
                    last = Some(f);
                }
            }
            Err(e) => {
                eprintln!("{}", e);
                return 2;
            }
        }
    }
    if let Some(f) = last {
        println!("replay: FAIL {}/{} signature={} :: {}", fails, tries, f.signature, f.message);
        println!("VIOLATION property={} replay={}", id, a[1]);
        1
    } else {
        println!("replay: pass ({} tries)", tries);
        0
    }
}

struct Job {
    sub: String,
    shard: u32,
    nshards: u32,
    out: PathBuf,
}

fn run_cmd(a: &[String]) -> i32 {
    let id = a[0].clone();
    let mut tier = std::env::var("VERIF_TIER").map(|t| Tier::parse(&t)).unwrap_or(Tier::Quick);
    let mut i = 1;
    while i < a.len() {
        if a[i] == "--tier" && i + 1 < a.len() {
            tier = Tier::parse(&a[i + 1]);
            i += 1;
        }
        i += 1;
    }
    let seed: u64 = std::env::var("VERIF_SEED").ok().and_then(|s| s.parse::<i64>().ok()).map(|v| v as u64).unwrap_or(0);
    let prop = find_prop(&id);
    let (_all, mine) = load_known(&id);
    let known_sigs: BTreeSet<String> = mine.iter().map(|f| f.signature.clone()).collect();
    let subs = (prop.subs)();
    let started = Instant::now();
    let root = verif_root();
    let mut violations: Vec<(String, String)> = Vec::new(); // (replay path, text)
    let mut known_lines: Vec<String> = Vec::new();
    let mut replayed = 0u64;

    // ---- 1. replay tier: pinned known findings + regression replays ----
    let replay_dir = root.join("replays").join(&id);
    let known_replays: BTreeMap<PathBuf, &KnownFinding> = mine.iter().map(|f| (root.join(&f.replay), f)).collect();
    let mut files: Vec<PathBuf> = std::fs::read_dir(&replay_dir)
        .map(|rd| rd.filter_map(|e| e.ok()).map(|e| e.path()).filter(|p| p.extension().map(|x| x == "json").unwrap_or(false)).collect())
        .unwrap_or_default();
    files.sort();
    for f in &files {
        let text = match std::fs::read_to_string(f) {
            Ok(t) => t,
            Err(_) => continue,
        };
        let rf: ReplayFile = match serde_json::from_str(&text) {
            Ok(r) => r,
            Err(e) => {
                eprintln!("skipping malformed replay {}: {}", f.display(), e);
                continue;
            }
        };
        let sc = match subs.iter().find(|s| s.name() == rf.sub) {
            Some(s) => s,
            None => continue,
        };
        replayed += 1;
        // nondeterministic SUT internals: allow a few attempts for pinned known findings
        let kf = known_replays.get(f);
        let tries = if kf.is_some() { 5 } else { 1 };
        let mut failure = None;
        for _ in 0..tries {
            match sc.replay(&rf.case) {
                Ok(o) => {
                    if let Some(fl) = o.failure {
                        failure = Some(fl);
                        break;
                    }
                }
                Err(e) => {
                    eprintln!("{}", e);
                    break;
                }
            }
        }
        match (kf, failure) {
            (Some(k), Some(fl)) => {
                if fl.signature == k.signature {
                    known_lines.push(format!("KNOWN-FINDING: property={} {} [signature={}]", id, k.what, k.signature));
                } else if known_sigs.contains(&fl.signature) {
                    known_lines.push(format!("KNOWN-FINDING: property={} {} [signature={}]", id, k.what, fl.signature));
                } else {
                    violations.push((f.display().to_string(), format!("pinned repro fails differently: {} :: {}", fl.signature, fl.message)));
                }
            }
            (Some(k), None) => {
                println!("note: known finding no longer reproduces on this tree: {} ({})", k.signature, k.replay);
            }
            (None, Some(fl)) => {
                if known_sigs.contains(&fl.signature) {
                    // regression replay that falls in a known class
                } else {
                    violations.push((f.display().to_string(), format!("{} :: {}", fl.signature, fl.message)));
                }
            }
            (None, None) => {}
        }
    }

    // ---- 2. sharded exploration ----
    let self_exe = std::env::current_exe().expect("current_exe");
    let tmp = root.join("harness/target/run-tmp").join(format!("{}-{}-{}", id, std::process::id(), seed));
    let _ = std::fs::remove_dir_all(&tmp);
    std::fs::create_dir_all(&tmp).expect("tmp dir");
    let maxpar: usize = std::env::var("VERIF_JOBS").ok().and_then(|s| s.parse().ok()).unwrap_or(16);
    let mut jobs: Vec<Job> = Vec::new();
    for s in &subs {
        let cases = s.cases(tier);
        if cases == 0 {
            continue;
        }
        // few (= expensive) cases: one per worker
        let nshards = if cases <= 64 { cases.clamp(1, maxpar as u32) } else { (cases.div_ceil(8)).clamp(1, maxpar as u32) };
        for shard in 0..nshards {
            jobs.push(Job { sub: s.name().to_string(), shard, nshards, out: tmp.join(format!("{}-{}.json", s.name(), shard)) });
        }
    }
    let timeout = Duration::from_secs(
        std::env::var("VERIF_WORKER_TIMEOUT_S").ok().and_then(|s| s.parse().ok()).unwrap_or(match tier {
            Tier::Quick => 1500,
            Tier::Thorough => 6 * 3600,
        }),
    );
    let mut running: Vec<(usize, std::process::Child, Instant)> = Vec::new();
    let mut next = 0usize;
    let mut inconclusive: Vec<String> = Vec::new();
    let mut finished: Vec<usize> = Vec::new();
    while next < jobs.len() || !running.is_empty() {
        while running.len() < maxpar && next < jobs.len() {
            let j = &jobs[next];
            let child = Command::new(&self_exe)
                .args(["worker", &id, &j.sub, tier.as_str(), &seed.to_string(), &j.shard.to_string(), &j.nshards.to_string(), j.out.to_str().unwrap()])
                .stdin(Stdio::null())
                .stdout(Stdio::null())
                .stderr(if std::env::var("VERIF_WORKER_STDERR").is_ok() { Stdio::inherit() } else { Stdio::null() })
                .spawn()
                .expect("spawn worker");
            running.push((next, child, Instant::now()));
            next += 1;
        }
        let mut k = 0;
        while k < running.len() {
            let (ji, child, t0) = &mut running[k];
            match child.try_wait() {
                Ok(Some(st)) => {
                    if !st.success() {
                        inconclusive.push(format!("worker {}#{} exited with {}", jobs[*ji].sub, jobs[*ji].shard, st));
                    }
                    finished.push(*ji);
                    running.swap_remove(k);
                    continue;
                }
                Ok(None) => {
                    if t0.elapsed() > timeout {
                        let _ = child.kill();
                        let _ = child.wait();
                        inconclusive.push(format!("worker {}#{} killed by watchdog after {:?}", jobs[*ji].sub, jobs[*ji].shard, timeout));
                        running.swap_remove(k);
                        continue;
                    }
                }
                Err(e) => {
                    inconclusive.push(format!("wait failed: {}", e));
                    running.swap_remove(k);
                    continue;
                }
            }
            k += 1;
        }
        std::thread::sleep(Duration::from_millis(20));
    }

    // ---- 3. aggregate ----
    let mut evaluations = 0u64;
    let mut extra_evaluations = 0u64;
    let mut extra_nontrivial = 0u64;
    let mut fps: BTreeSet<(String, u64)> = BTreeSet::new();
    let mut classes: BTreeMap<String, u64> = BTreeMap::new();
    let mut counters: BTreeMap<String, u64> = BTreeMap::new();
    let mut excluded: BTreeMap<String, u64> = BTreeMap::new();
    let mut known_hits: BTreeMap<String, u64> = BTreeMap::new();
    let mut samples: Vec<serde_json::Value> = Vec::new();
    let mut per_sub: BTreeMap<String, (u64, BTreeSet<u64>)> = BTreeMap::new();
    let mut failures: Vec<FoundFailure> = Vec::new();
    for j in &jobs {
        let rep: ShardReport = match std::fs::read(&j.out).ok().and_then(|b| serde_json::from_slice(&b).ok()) {
            Some(r) => r,
            None => {
                if !inconclusive.iter().any(|m| m.contains(&format!("{}#{}", j.sub, j.shard))) {
                    inconclusive.push(format!("worker {}#{} produced no report", j.sub, j.shard));
                }
                continue;
            }
        };
        evaluations += rep.evaluations;
        let e = per_sub.entry(rep.sub.clone()).or_default();
        e.0 += rep.evaluations;
        for fp in &rep.nontrivial_fps {
            fps.insert((rep.sub.clone(), *fp));
            e.1.insert(*fp);
        }
        for (k, v) in rep.classes {
            *classes.entry(format!("{}:{}", rep.sub, k)).or_insert(0) += v;
        }
        for (k, v) in rep.counters {
            // checks that enumerate inside one generated case report their executions
            if k == "executions" {
                extra_evaluations += v;
            }
            if k == "nontrivial_executions" {
                extra_nontrivial += v;
            }
            *counters.entry(format!("{}:{}", rep.sub, k)).or_insert(0) += v;
        }
        for (k, v) in rep.excluded_known {
            *excluded.entry(k).or_insert(0) += v;
        }
        for (k, v) in rep.known_hits {
            *known_hits.entry(k).or_insert(0) += v;
        }
        if samples.iter().filter(|s| s["sub"] == rep.sub.as_str()).count() < 2 {
            for s in rep.samples.into_iter().take(1) {
                samples.push(serde_json::json!({"sub": rep.sub, "case": s}));
            }
        }
        for f in rep.failures {
            if !failures.iter().any(|g| g.signature == f.signature && g.sub == f.sub) {
                failures.push(f);
            }
        }
    }
    let _ = std::fs::remove_dir_all(&tmp);
    for (k, v) in &counters {
        if k.ends_with(":case_timeouts") && *v > 0 {
            inconclusive.push(format!("{} case(s) of {} were killed after the per-case time limit (CPU-bound without end)", v, k.trim_end_matches(":case_timeouts")));
        }
    }

    // ---- 4. failures -> replay files ----
    for f in &failures {
        if f.signature == "generator-abort" {
            inconclusive.push(format!("generator aborted in {}: {}", f.sub, f.message));
            continue;
        }
        let dir = root.join("found").join(&id);
        let _ = std::fs::create_dir_all(&dir);
        let rf = ReplayFile { property: id.clone(), sub: f.sub.clone(), signature: f.signature.clone(), message: f.message.clone(), case: f.case.clone() };
        let name = format!("{}-{:016x}.json", f.sub, fingerprint(&f.case));
        let path = dir.join(name);
        let _ = std::fs::write(&path, serde_json::to_string_pretty(&rf).unwrap());
        violations.push((path.display().to_string(), format!("[{}] {} :: {}", f.sub, f.signature, f.message)));
    }
    // a known signature hit during exploration whose pinned repro did not print a line yet
    for (sig, n) in &known_hits {
        if let Some(k) = mine.iter().find(|k| &k.signature == sig) {
            let line = format!("KNOWN-FINDING: property={} {} [signature={}]", id, k.what, k.signature);
            if !known_lines.contains(&line) {
                known_lines.push(line);
            }
            let _ = n;
        }
    }

    // ---- 5. evidence ----
    let wall = started.elapsed().as_secs_f64();
    let sub_summary: BTreeMap<String, serde_json::Value> = per_sub
        .iter()
        .map(|(k, (ev, set))| (k.clone(), serde_json::json!({"evaluations": ev, "distinct_nontrivial": set.len()})))
        .collect();
    if samples.is_empty() {
        samples.push(serde_json::json!({"note": "no non-trivial case was produced in this run"}));
    }
    let evidence = serde_json::json!({
        "property_id": id,
        "tier": tier.as_str(),
        "seed": seed as i64,
        "level": prop.level,
        "coverage": {
            "evaluations": evaluations + replayed + extra_evaluations,
            "distinct_nontrivial": fps.len() as u64 + extra_nontrivial,
            "generated_cases": evaluations,
            "rule": prop.rule,
            "samples": samples,
            "classes": classes,
            "counters": counters,
            "per_sub_check": sub_summary,
            "replayed_saved_cases": replayed,
            "excluded_known": excluded,
            "known_finding_hits": known_hits,
            "inconclusive": inconclusive,
            "exhaustive": false
        },
        "assumptions": prop.assumptions,
        "wall_s": wall,
        "violations": violations.len()
    });
    let evdir = root.join("evidence");
    let _ = std::fs::create_dir_all(&evdir);
    let _ = std::fs::write(evdir.join(format!("{}.json", id)), serde_json::to_string_pretty(&evidence).unwrap());

    // ---- 6. report ----
    for l in &known_lines {
        println!("{}", l);
    }
    println!(
        "{} [{}] seed={} evaluations={} distinct_nontrivial={} known_hits={} wall={:.1}s",
        id,
        tier.as_str(),
        seed,
        evaluations + replayed,
        fps.len(),
        known_hits.values().sum::<u64>(),
        wall
    );
    for (k, (ev, set)) in &per_sub {
        println!("  sub {:<28} evaluations={:<8} nontrivial={}", k, ev, set.len());
    }
    if !violations.is_empty() {
        for (path, text) in &violations {
            println!("  failure: {}", text);
            println!("VIOLATION property={} replay={}", id, path);
        }
        return 1;
    }
    if !inconclusive.is_empty() {
        for m in &inconclusive {
            println!("INCONCLUSIVE: {}", m);
        }
        return 2;
    }
    let _ = Path::new("");
    0
}

/// Write small valid seed inputs for the libFuzzer targets (golden encodings).
fn seeds(dir: &str) {
    use csverif::props::c17::*;
    use prost::Message;
    let root = std::path::Path::new(dir);
    let w = |target: &str, name: &str, data: &[u8]| {
        let d = root.join(target);
        std::fs::create_dir_all(&d).unwrap();
        std::fs::write(d.join(name), data).unwrap();
    };
    // prom_body: mode byte + body
    for (i, enc) in [0u8, 1, 2, 3].iter().enumerate() {
        let req = PReq {
            series: vec![
                PSeries { name: 0, labels: vec![(0, 0), (1, 3)], samples: vec![(0, 1), (1, 3), (3, 9)], name_pos: 0 },
                PSeries { name: 1, labels: vec![(2, 1)], samples: vec![(2, 12), (0, 6)], name_pos: 0 },
                PSeries { name: 2, labels: vec![], samples: vec![], name_pos: 0 },
            ],
            enc: *enc,
            colliding_labels: false,
            ts_base: 1,
        };
        let body = encode_remote_write(&req);
        let mut raw = vec![0u8];
        raw.extend_from_slice(&body);
        w("prom_body", &format!("raw-{}", i), &raw);
        let mut sn = vec![1u8];
        sn.extend_from_slice(&snappy(&body));
        w("prom_body", &format!("snappy-{}", i), &sn);
    }
    // otlp_decode
    for (i, kinds) in [[0u8, 1, 4], [2, 3, 5]].iter().enumerate() {
        let req = OReq { resources: vec![(vec![(0, 0)], kinds.iter().map(|k| OPoint { kind: *k, name: *k, ts: 1, value: 3 + *k, attrs: vec![(0, 1), (4, 2)] }).collect())], ts_base: 1 };
        let (msg, _) = build_otlp(&req);
        w("otlp_decode", &format!("export-{}", i), &msg.encode_to_vec());
    }
    // flight_doput: [u16 hl][u16 bl][header][body]...
    {
        let spec = csverif::gen::BatchSpec { schema: 1, rows: (0..3).map(|i| csverif::gen::RowSpec { ts_step: i, ts_jitter: 0, metric: i as u8, labels: [Some(0), None, Some(1)], fval: Some(3), ival: None }).collect() };
        let batch = csverif::gen::build_batch(&spec, 1_700_000_000_000_000_000, 0, None);
        let frames = cardinalsin::api::ingest::flight_ingest::batch_to_flight_data(&batch).unwrap();
        let mut out = Vec::new();
        for f in &frames {
            out.extend_from_slice(&(f.data_header.len() as u16).to_le_bytes());
            out.extend_from_slice(&(f.data_body.len() as u16).to_le_bytes());
            out.extend_from_slice(&f.data_header);
            out.extend_from_slice(&f.data_body);
        }
        w("flight_doput", "batch-0", &out);
    }
    // structured-bytes targets: a few fixed byte strings of full length
    for t in ["wal_ops", "pred_stats"] {
        for i in 0..4u8 {
            let data: Vec<u8> = (0..96u32).map(|k| (k as u8).wrapping_mul(37 + i * 11).wrapping_add(i * 59)).collect();
            w(t, &format!("bytes-{}", i), &data);
        }
    }
}
