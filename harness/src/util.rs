//! Small shared helpers: runtimes, poll budget (deterministic hang detection).
use std::future::Future;
use std::pin::Pin;
use std::task::{Context, Poll};

/// current_thread runtime with a paused (virtual, auto-advancing) clock.
pub fn rt_paused() -> tokio::runtime::Runtime {
    tokio::runtime::Builder::new_current_thread().enable_all().start_paused(true).build().expect("runtime")
}

/// current_thread runtime on real time.
pub fn rt_plain() -> tokio::runtime::Runtime {
    tokio::runtime::Builder::new_current_thread().enable_all().build().expect("runtime")
}

/// Wraps a future and gives up after `budget` polls.  tokio's cooperative
/// budget forces a task that never blocks to yield every 128 sync-primitive
/// operations, so a non-terminating async loop shows up as "more than n polls":
/// a verdict that does not depend on the wall clock.
pub struct PollBudget<F> {
    fut: Pin<Box<F>>,
    left: u32,
    pub polls: u32,
}

impl<F: Future> PollBudget<F> {
    pub fn new(fut: F, budget: u32) -> Self {
        Self { fut: Box::pin(fut), left: budget, polls: 0 }
    }
}

impl<F: Future> Future for PollBudget<F> {
    /// `None` = budget exhausted.
    type Output = Option<F::Output>;
    fn poll(mut self: Pin<&mut Self>, cx: &mut Context<'_>) -> Poll<Self::Output> {
        if self.left == 0 {
            return Poll::Ready(None);
        }
        self.left -= 1;
        self.polls += 1;
        match self.fut.as_mut().poll(cx) {
            Poll::Ready(v) => Poll::Ready(Some(v)),
            Poll::Pending => Poll::Pending,
        }
    }
}

/// tokio's worker threads - on which every request handler of the server binaries runs
/// (`#[tokio::main]`, no `thread_stack_size`) - have 2 MiB stacks; the main thread of a
/// harness process has 8 MiB.  Run `f` with the stack a handler really has.
pub const TOKIO_WORKER_STACK: usize = 2 * 1024 * 1024;

pub fn on_worker_stack<T: Send + 'static>(f: impl FnOnce() -> T + Send + 'static) -> std::thread::Result<T> {
    std::thread::Builder::new().stack_size(TOKIO_WORKER_STACK).spawn(f).expect("spawn").join()
}
