//! Runner plumbing shared by all property checks: tiers, outcomes, sub-checks,
//! sharded exploration with proptest's `TestRunner`, shrinking, replay files,
//! known-finding classification and evidence output.

use proptest::strategy::{BoxedStrategy, Strategy};
use proptest::test_runner::{Config, RngAlgorithm, TestCaseError, TestError, TestRng, TestRunner};
use serde::de::DeserializeOwned;
use serde::{Deserialize, Serialize};
use std::cell::RefCell;
use std::collections::{BTreeMap, BTreeSet};
use std::fmt::Debug;
use std::panic::AssertUnwindSafe;

#[derive(Clone, Copy, Debug, PartialEq, Eq, Serialize, Deserialize)]
#[serde(rename_all = "lowercase")]
pub enum Tier {
    Quick,
    Thorough,
}

impl Tier {
    pub fn parse(s: &str) -> Tier {
        match s {
            "thorough" => Tier::Thorough,
            _ => Tier::Quick,
        }
    }
    pub fn as_str(&self) -> &'static str {
        match self {
            Tier::Quick => "quick",
            Tier::Thorough => "thorough",
        }
    }
    /// `q` cases in the quick tier, `q * mult` in the thorough tier.
    pub fn scale(&self, q: u32, mult: u32) -> u32 {
        match self {
            Tier::Quick => q,
            Tier::Thorough => q.saturating_mul(mult),
        }
    }
    pub fn pick<T>(&self, q: T, t: T) -> T {
        match self {
            Tier::Quick => q,
            Tier::Thorough => t,
        }
    }
}

/// Result of executing one generated case against the oracle.
#[derive(Clone, Debug, Default, Serialize, Deserialize)]
pub struct Outcome {
    /// `None` = property held on this case.
    pub failure: Option<Failure>,
    /// Non-trivial by the property's stated rule.
    pub nontrivial: bool,
    /// Class labels for the histogram in the evidence file.
    pub classes: Vec<String>,
    /// Free counters (requests scheduled, faults injected, ...), summed.
    pub counters: BTreeMap<String, u64>,
    /// Case was steered away from / falls into a recorded known-finding class
    /// (counted, not judged).
    pub excluded_known: Option<String>,
}

#[derive(Clone, Debug, Serialize, Deserialize)]
pub struct Failure {
    /// Structural signature of the failure (what failed + the structural class
    /// of the case).  Known findings are keyed on this.
    pub signature: String,
    pub message: String,
}

impl Outcome {
    pub fn pass() -> Self {
        Self::default()
    }
    pub fn fail(signature: impl Into<String>, message: impl Into<String>) -> Self {
        Self {
            failure: Some(Failure { signature: signature.into(), message: message.into() }),
            ..Default::default()
        }
    }
    pub fn set_fail(&mut self, signature: impl Into<String>, message: impl Into<String>) {
        if self.failure.is_none() {
            self.failure = Some(Failure { signature: signature.into(), message: message.into() });
        }
    }
    pub fn class(&mut self, c: impl Into<String>) {
        let c = c.into();
        if !self.classes.contains(&c) {
            self.classes.push(c);
        }
    }
    pub fn count(&mut self, k: &str, n: u64) {
        *self.counters.entry(k.to_string()).or_insert(0) += n;
    }
    pub fn nontrivial(mut self, b: bool) -> Self {
        self.nontrivial = b;
        self
    }
}

/// A sub-check of a property: one generator + one oracle.
pub trait SubCheck: Send + Sync {
    fn name(&self) -> &'static str;
    fn cases(&self, tier: Tier) -> u32;
    fn run_shard(&self, tier: Tier, seed: u64, shard: u32, nshards: u32, known: &BTreeSet<String>) -> ShardReport;
    fn replay(&self, case: &serde_json::Value) -> Result<Outcome, String>;
}

pub struct Sub<C> {
    pub name: &'static str,
    pub cases: fn(Tier) -> u32,
    pub strategy: fn(Tier) -> BoxedStrategy<C>,
    pub exec: fn(&C) -> Outcome,
}

#[derive(Clone, Debug, Default, Serialize, Deserialize)]
pub struct FoundFailure {
    pub sub: String,
    pub signature: String,
    pub message: String,
    pub case: serde_json::Value,
    pub shrunk: bool,
}

#[derive(Clone, Debug, Default, Serialize, Deserialize)]
pub struct ShardReport {
    pub sub: String,
    pub evaluations: u64,
    pub nontrivial_fps: Vec<u64>,
    pub classes: BTreeMap<String, u64>,
    pub counters: BTreeMap<String, u64>,
    pub excluded_known: BTreeMap<String, u64>,
    pub known_hits: BTreeMap<String, u64>,
    pub samples: Vec<serde_json::Value>,
    pub failures: Vec<FoundFailure>,
}

thread_local! {
    static LAST_PANIC: RefCell<Option<String>> = const { RefCell::new(None) };
}

/// Install a quiet panic hook that remembers the message + location.
pub fn install_quiet_panic_hook() {
    std::panic::set_hook(Box::new(|info| {
        let msg = if let Some(s) = info.payload().downcast_ref::<&str>() {
            s.to_string()
        } else if let Some(s) = info.payload().downcast_ref::<String>() {
            s.clone()
        } else {
            "<non-string panic>".to_string()
        };
        let loc = info.location().map(|l| format!("{}:{}", l.file(), l.line())).unwrap_or_default();
        LAST_PANIC.with(|p| *p.borrow_mut() = Some(format!("{} @ {}", msg, loc)));
        if std::env::var("VERIF_SHOW_PANICS").is_ok() {
            eprintln!("[panic] {} @ {}", msg, loc);
        }
    }));
}

pub fn take_last_panic() -> Option<String> {
    LAST_PANIC.with(|p| p.borrow_mut().take())
}

/// Run `f`, turning a panic into `Err(message @ location)`.
pub fn catch<T>(f: impl FnOnce() -> T) -> Result<T, String> {
    match std::panic::catch_unwind(AssertUnwindSafe(f)) {
        Ok(v) => Ok(v),
        Err(_) => Err(take_last_panic().unwrap_or_else(|| "<panic>".into())),
    }
}

pub fn fingerprint(v: &serde_json::Value) -> u64 {
    // FNV-1a over the canonical JSON text (serde_json maps are BTreeMaps here:
    // key order is canonical).
    let s = serde_json::to_string(v).unwrap_or_default();
    let mut h: u64 = 0xcbf29ce484222325;
    for b in s.as_bytes() {
        h ^= *b as u64;
        h = h.wrapping_mul(0x100000001b3);
    }
    h
}

fn mix(seed: u64, id: &str, shard: u32, round: u32) -> [u8; 32] {
    let mut out = [0u8; 32];
    let mut h: u64 = 0x9e3779b97f4a7c15 ^ seed.wrapping_mul(0xbf58476d1ce4e5b9);
    for b in id.as_bytes() {
        h ^= *b as u64;
        h = h.wrapping_mul(0x100000001b3);
    }
    h ^= ((shard as u64) << 32) | round as u64;
    for i in 0..4 {
        // splitmix64
        h = h.wrapping_add(0x9e3779b97f4a7c15);
        let mut z = h;
        z = (z ^ (z >> 30)).wrapping_mul(0xbf58476d1ce4e5b9);
        z = (z ^ (z >> 27)).wrapping_mul(0x94d049bb133111eb);
        z ^= z >> 31;
        out[i * 8..i * 8 + 8].copy_from_slice(&z.to_le_bytes());
    }
    out
}

fn exec_guarded<C>(exec: fn(&C) -> Outcome, case: &C) -> Outcome {
    match catch(|| exec(case)) {
        Ok(o) => o,
        Err(p) => {
            // A panic escaping the property's own exec function: the property
            // code decides (inside exec) whether SUT panics are violations; an
            // escaped one is reported with a generic signature.
            let short: String = p.chars().take(160).collect();
            Outcome::fail(format!("panic:{}", panic_site(&p)), short)
        }
    }
}

/// Run one case in a forked child process, so that what no `catch_unwind` can stop - a stack
/// overflow, an abort, a double panic - is reported as a failure of *this case* (and shrunk
/// and replayed like any other) instead of killing the worker.  The child sends its `Outcome`
/// back through a pipe.  `what` names the receiver for the signature.
///
/// Only call this from a single-threaded point (the proptest loop of a worker): the child
/// inherits just the calling thread.
pub fn isolated(what: &str, f: impl FnOnce() -> Outcome) -> Outcome {
    unsafe {
        let mut fds = [0i32; 2];
        if libc::pipe(fds.as_mut_ptr()) != 0 {
            return f();
        }
        let pid = libc::fork();
        if pid < 0 {
            libc::close(fds[0]);
            libc::close(fds[1]);
            return f();
        }
        if pid == 0 {
            libc::close(fds[0]);
            let out = match catch(f) {
                Ok(o) => o,
                Err(p) => Outcome::fail(format!("panic:{}", panic_site(&p)), p.chars().take(160).collect::<String>()),
            };
            let bytes = serde_json::to_vec(&out).unwrap_or_default();
            let mut off = 0usize;
            while off < bytes.len() {
                let n = libc::write(fds[1], bytes[off..].as_ptr() as *const libc::c_void, bytes.len() - off);
                if n <= 0 {
                    break;
                }
                off += n as usize;
            }
            libc::close(fds[1]);
            libc::_exit(0);
        }
        libc::close(fds[1]);
        let mut buf: Vec<u8> = Vec::new();
        let mut chunk = [0u8; 65536];
        // 10 s per case; once a worker has seen five such cases, 2 s (a tree on which cases spin
        // must not turn a quick run into hours)
        static TIMEOUTS: std::sync::atomic::AtomicU32 = std::sync::atomic::AtomicU32::new(0);
        let dflt = if TIMEOUTS.load(std::sync::atomic::Ordering::Relaxed) >= 5 { 2 } else { 10 };
        let limit_s: u64 = std::env::var("VERIF_CASE_TIMEOUT_S").ok().and_then(|s| s.parse().ok()).unwrap_or(dflt);
        let deadline = std::time::Instant::now() + std::time::Duration::from_secs(limit_s);
        loop {
            let left = deadline.saturating_duration_since(std::time::Instant::now());
            if left.is_zero() {
                // CPU-bound without end (not a poll-budget matter): inconclusive, never a violation
                libc::kill(pid, libc::SIGKILL);
                let mut st = 0i32;
                libc::waitpid(pid, &mut st, 0);
                libc::close(fds[0]);
                TIMEOUTS.fetch_add(1, std::sync::atomic::Ordering::Relaxed);
                let mut o = Outcome::pass();
                o.class("inconclusive:case-killed-after-time-limit");
                o.count("case_timeouts", 1);
                return o;
            }
            let mut pfd = libc::pollfd { fd: fds[0], events: libc::POLLIN, revents: 0 };
            let r = libc::poll(&mut pfd, 1, left.as_millis().min(1000) as i32);
            if r <= 0 {
                continue;
            }
            let n = libc::read(fds[0], chunk.as_mut_ptr() as *mut libc::c_void, chunk.len());
            if n < 0 && *libc::__errno_location() == libc::EINTR {
                continue;
            }
            if n <= 0 {
                break;
            }
            buf.extend_from_slice(&chunk[..n as usize]);
        }
        libc::close(fds[0]);
        let mut status = 0i32;
        while libc::waitpid(pid, &mut status, 0) < 0 && *libc::__errno_location() == libc::EINTR {}
        if libc::WIFSIGNALED(status) {
            let sig = libc::WTERMSIG(status);
            let name = match sig {
                libc::SIGABRT => "SIGABRT",
                libc::SIGSEGV => "SIGSEGV",
                libc::SIGBUS => "SIGBUS",
                libc::SIGKILL => "SIGKILL",
                _ => "signal",
            };
            return Outcome::fail(format!("{}:process-abort", what), format!("the process executing this case was killed by {} ({}): stack overflow / abort, which no error handling in the server can contain", name, sig));
        }
        match serde_json::from_slice::<Outcome>(&buf) {
            Ok(o) => o,
            Err(e) => Outcome::fail(format!("{}:process-exit-without-result", what), format!("child exited with status {} and no readable outcome ({})", status, e)),
        }
    }
}

/// Reduce a panic description to its source site (stable signature component).
pub fn panic_site(p: &str) -> String {
    match p.rfind(" @ ") {
        Some(i) => {
            let loc = &p[i + 3..];
            // strip registry hash / absolute prefix
            let loc = loc.rsplit("/src/").next().map(|s| format!("src/{}", s)).unwrap_or_else(|| loc.to_string());
            loc
        }
        None => "unknown".into(),
    }
}

impl<C> SubCheck for Sub<C>
where
    C: Serialize + DeserializeOwned + Debug + Clone + Send + Sync + 'static,
{
    fn name(&self) -> &'static str {
        self.name
    }
    fn cases(&self, tier: Tier) -> u32 {
        (self.cases)(tier)
    }

    fn run_shard(&self, tier: Tier, seed: u64, shard: u32, nshards: u32, known: &BTreeSet<String>) -> ShardReport {
        let total = (self.cases)(tier);
        let mut budget = total / nshards + if shard < total % nshards { 1 } else { 0 };
        let mut rep = ShardReport { sub: self.name.to_string(), ..Default::default() };
        let mut fps: BTreeSet<u64> = BTreeSet::new();
        let mut round = 0u32;
        let max_samples = 3usize;
        // Stop re-discovering the same failure forever: at most this many
        // distinct unknown failures per shard.
        let max_failures = 3usize;
        let mut repeats = 0u32;
        while budget > 0 {
            let strategy = (self.strategy)(tier);
            let rng = TestRng::from_seed(RngAlgorithm::ChaCha, &mix(seed, self.name, shard, round));
            let cfg = Config {
                cases: budget,
                failure_persistence: None,
                max_shrink_iters: 400,
                max_local_rejects: 1_000_000,
                max_global_rejects: 1_000_000,
                ..Config::default()
            };
            let mut runner = TestRunner::new_with_rng(cfg, rng);
            // state shared with the closure
            let counting = RefCell::new(true);
            let done = RefCell::new(0u32);
            let rep_cell = RefCell::new(&mut rep);
            let fps_cell = RefCell::new(&mut fps);
            let exec = self.exec;
            let result = runner.run(&strategy, |case: C| {
                let out = exec_guarded(exec, &case);
                let is_counting = *counting.borrow();
                let mut known_fail = false;
                if let Some(f) = &out.failure {
                    if known.contains(&f.signature) {
                        known_fail = true;
                    }
                }
                if is_counting {
                    let mut rep = rep_cell.borrow_mut();
                    rep.evaluations += 1;
                    *done.borrow_mut() += 1;
                    for c in &out.classes {
                        *rep.classes.entry(c.clone()).or_insert(0) += 1;
                    }
                    for (k, v) in &out.counters {
                        *rep.counters.entry(k.clone()).or_insert(0) += *v;
                    }
                    if let Some(k) = &out.excluded_known {
                        *rep.excluded_known.entry(k.clone()).or_insert(0) += 1;
                    }
                    if known_fail {
                        let sig = out.failure.as_ref().unwrap().signature.clone();
                        *rep.known_hits.entry(sig).or_insert(0) += 1;
                    }
                    if out.nontrivial && (out.failure.is_none() || known_fail) {
                        let v = serde_json::to_value(&case).unwrap_or(serde_json::Value::Null);
                        let fp = fingerprint(&v);
                        if fps_cell.borrow_mut().insert(fp) && rep.samples.len() < max_samples {
                            rep.samples.push(v);
                        }
                    }
                }
                match &out.failure {
                    Some(f) if !known_fail => {
                        *counting.borrow_mut() = false;
                        Err(TestCaseError::fail(format!("{}|{}", f.signature, f.message)))
                    }
                    _ => Ok(()),
                }
            });
            let done_n = *done.borrow();
            drop(rep_cell);
            drop(fps_cell);
            budget = budget.saturating_sub(done_n.max(1));
            match result {
                Ok(()) => break,
                Err(TestError::Fail(_reason, shrunk)) => {
                    // Re-run the shrunk case for the definitive signature/message.
                    let out = exec_guarded(self.exec, &shrunk);
                    let (sig, msg, case) = match out.failure {
                        Some(f) => (f.signature, f.message, shrunk),
                        None => ("flaky-after-shrink".to_string(), _reason.to_string(), shrunk),
                    };
                    let v = serde_json::to_value(&case).unwrap_or(serde_json::Value::Null);
                    if known.contains(&sig) {
                        *rep.known_hits.entry(sig).or_insert(0) += 1;
                    } else if !rep.failures.iter().any(|f| f.signature == sig) {
                        rep.failures.push(FoundFailure { sub: self.name.to_string(), signature: sig, message: msg, case: v, shrunk: true });
                    } else {
                        repeats += 1;
                    }
                    if rep.failures.len() >= max_failures || repeats >= 2 {
                        break;
                    }
                    round += 1;
                }
                Err(TestError::Abort(reason)) => {
                    rep.failures.push(FoundFailure {
                        sub: self.name.to_string(),
                        signature: "generator-abort".into(),
                        message: reason.to_string(),
                        case: serde_json::Value::Null,
                        shrunk: false,
                    });
                    break;
                }
            }
        }
        rep.nontrivial_fps = fps.into_iter().collect();
        rep
    }

    fn replay(&self, case: &serde_json::Value) -> Result<Outcome, String> {
        let c: C = serde_json::from_value(case.clone()).map_err(|e| format!("cannot decode case for {}: {}", self.name, e))?;
        Ok(exec_guarded(self.exec, &c))
    }
}

/// Static description of a property check.
pub struct PropDef {
    pub id: &'static str,
    pub level: &'static str,
    pub rule: &'static str,
    pub assumptions: &'static [&'static str],
    pub subs: fn() -> Vec<Box<dyn SubCheck>>,
}

/// Helper to box a strategy producing serialisable cases.
pub fn boxed<C: Debug + 'static>(s: impl Strategy<Value = C> + 'static) -> BoxedStrategy<C> {
    s.boxed()
}

/// Monotone index mapping (keeps shrinking effective): maps `i` in 0..=65535
/// onto 0..len.
pub fn pick_idx(i: u16, len: usize) -> usize {
    if len == 0 {
        0
    } else {
        ((i as usize) * len) >> 16
    }
}

/// Replay-file format.
#[derive(Clone, Debug, Serialize, Deserialize)]
pub struct ReplayFile {
    pub property: String,
    pub sub: String,
    #[serde(default)]
    pub signature: String,
    #[serde(default)]
    pub message: String,
    pub case: serde_json::Value,
}

#[derive(Clone, Debug, Default, Serialize, Deserialize)]
pub struct KnownFindings {
    #[serde(default)]
    pub findings: Vec<KnownFinding>,
    #[serde(default)]
    pub fixed: Vec<String>,
}

#[derive(Clone, Debug, Serialize, Deserialize)]
pub struct KnownFinding {
    pub property: String,
    /// failure signature (structural class) this entry covers
    pub signature: String,
    /// pinned minimal reproduction (path relative to /verif)
    pub replay: String,
    /// what fails
    pub what: String,
}
