//! C05 — WAL recovery is exact under torn writes; sequence numbers never regress.
//!
//! Real files (tmpfs when available), public `WriteAheadLog` API only.  The
//! generator respects the call discipline of the real callers
//! (`flush_batches`: truncate_before(x) then persist_flushed_seq(x), x <= last
//! acked; `ensure_wal`: truncate_before(loaded_flushed + 1)).

use crate::core::*;
use crate::util::*;
use arrow_array::{Int64Array, RecordBatch, StringArray};
use arrow_schema::{DataType, Field, Schema};
use cardinalsin::ingester::{load_flushed_seq, persist_flushed_seq, WalConfig, WalSyncMode, WriteAheadLog};
use proptest::prelude::*;
use serde::{Deserialize, Serialize};
use std::collections::BTreeMap;
use std::path::Path;
use std::sync::Arc;

#[derive(Clone, Debug, Serialize, Deserialize)]
pub enum Op {
    Append { rows: u8, cols: u8 },
    /// flush-style truncation: truncate_before(x), x picked among acked seqs
    TruncateAcked { pick: u16 },
    /// start-up truncation: truncate_before(load_flushed_seq + 1)
    TruncateStartup,
    /// persist_flushed_seq(x), x picked among acked seqs
    PersistFlushed { pick: u16 },
    /// clean close + open
    Reopen,
    /// append, then cut the written entry at byte `cut` (mapped into [0, entry_len)), then reopen
    CrashDuringAppend { rows: u8, cols: u8, cut: u16 },
    /// crash while the flushed-sequence file was being rewritten with value x: the
    /// file is left with the first `keep` bytes of the new value (8 = complete), then reopen
    CrashDuringPersist { pick: u16, keep: u8 },
}

#[derive(Clone, Debug, Serialize, Deserialize)]
pub struct Case {
    /// 0: just above one entry, 1: about three entries, 2: large, 3: 1 byte (every append rotates)
    pub seg: u8,
    pub ops: Vec<Op>,
}

fn batch(rows: u8, cols: u8, tag: u64) -> RecordBatch {
    let rows = 1 + (rows % 5) as usize;
    let cols = 1 + (cols % 3) as usize;
    let mut fields = vec![Field::new("timestamp", DataType::Int64, false)];
    let mut arrays: Vec<Arc<dyn arrow_array::Array>> = vec![Arc::new(Int64Array::from((0..rows).map(|r| (tag * 1000 + r as u64) as i64).collect::<Vec<_>>()))];
    for c in 1..cols {
        fields.push(Field::new(format!("l{}", c), DataType::Utf8, true));
        arrays.push(Arc::new(StringArray::from((0..rows).map(|r| if (r + c) % 4 == 0 { None } else { Some(format!("v{}-{}-{}", tag, c, r)) }).collect::<Vec<_>>())));
    }
    RecordBatch::try_new(Arc::new(Schema::new(fields)), arrays).unwrap()
}

fn batch_rows(b: &RecordBatch) -> Vec<String> {
    (0..b.num_rows())
        .map(|r| {
            let mut s = String::new();
            for c in 0..b.num_columns() {
                s.push_str(&arrow::util::display::array_value_to_string(b.column(c), r).unwrap_or_default());
                s.push('|');
            }
            s
        })
        .collect()
}

pub fn seg_files(dir: &Path) -> BTreeMap<String, u64> {
    let mut m = BTreeMap::new();
    if let Ok(rd) = std::fs::read_dir(dir) {
        for e in rd.flatten() {
            let n = e.file_name().to_string_lossy().to_string();
            if n.starts_with("segment-") && n.ends_with(".wal") {
                m.insert(n, e.metadata().map(|m| m.len()).unwrap_or(0));
            }
        }
    }
    m
}

pub fn scratch_dir() -> tempfile::TempDir {
    let shm = Path::new("/dev/shm");
    if shm.is_dir() {
        if let Ok(d) = tempfile::Builder::new().prefix("csverif-").tempdir_in(shm) {
            return d;
        }
    }
    tempfile::Builder::new().prefix("csverif-").tempdir().expect("tempdir")
}

struct Model {
    acked: BTreeMap<u64, Vec<String>>,
    acked_max: u64,
    trunc: u64,
}

fn check_after_open(wal: &WriteAheadLog, dir: &Path, m: &Model, ctx: &str) -> Result<(), (String, String)> {
    let entries = wal.read_entries().map_err(|e| ("read-entries-error".to_string(), format!("{}: read_entries failed: {:?}", ctx, e)))?;
    let mut last = 0u64;
    for e in &entries {
        if e.seq <= last {
            return Err(("entries-not-increasing".into(), format!("{}: read_entries returned seq {} after {}", ctx, e.seq, last)));
        }
        last = e.seq;
        match m.acked.get(&e.seq) {
            Some(rows) => {
                let got: Vec<String> = match e.batches() {
                    Ok(bs) => bs.iter().flat_map(batch_rows).collect(),
                    Err(err) => return Err(("acked-entry-undecodable".into(), format!("{}: entry {} does not decode: {:?}", ctx, e.seq, err))),
                };
                if &got != rows {
                    return Err(("entry-content-differs".into(), format!("{}: entry {} holds {:?}, acknowledged {:?}", ctx, e.seq, got, rows)));
                }
            }
            None => {
                return Err(("partial-or-unknown-entry-returned".into(), format!("{}: read_entries returned seq {} which was never acknowledged (a cut write?)", ctx, e.seq)));
            }
        }
    }
    for seq in m.acked.keys() {
        if *seq >= m.trunc && !entries.iter().any(|e| e.seq == *seq) {
            return Err(("acked-entry-missing".into(), format!("{}: acknowledged entry {} (>= truncation point {}) is not returned; returned {:?}", ctx, seq, m.trunc, entries.iter().map(|e| e.seq).collect::<Vec<_>>())));
        }
    }
    for after in [0u64, m.acked_max / 2, m.acked_max, m.acked_max + 1] {
        let a = wal.read_entries_after(after).map_err(|e| ("read-entries-error".to_string(), format!("{}: {:?}", ctx, e)))?;
        let want: Vec<u64> = entries.iter().map(|e| e.seq).filter(|s| *s > after).collect();
        let got: Vec<u64> = a.iter().map(|e| e.seq).collect();
        if want != got {
            return Err(("read-entries-after-differs".into(), format!("{}: read_entries_after({}) = {:?}, expected {:?}", ctx, after, got, want)));
        }
    }
    let flushed = load_flushed_seq(dir).unwrap_or(0);
    let floor = m.acked_max.max(flushed);
    if wal.next_seq() <= floor {
        return Err((
            "next-seq-regressed".into(),
            format!("{}: next_seq() = {} although seq {} was already acknowledged / recorded as flushed (flushed file = {})", ctx, wal.next_seq(), floor, flushed),
        ));
    }
    Ok(())
}

pub fn exec(case: &Case) -> Outcome {
    let rt = rt_plain();
    let dir = scratch_dir();
    let mut out = Outcome::pass();
    // entry size of a small batch, to pick segment limits
    let probe_len = {
        let d2 = scratch_dir();
        rt.block_on(async {
            let mut w = WriteAheadLog::open(WalConfig { wal_dir: d2.path().to_path_buf(), max_segment_size: 0, sync_mode: WalSyncMode::EveryWrite, enabled: true }).await.unwrap();
            w.append(&batch(0, 1, 1)).await.unwrap();
        });
        seg_files(d2.path()).values().sum::<u64>() as usize
    };
    let max_segment_size = match case.seg % 4 {
        0 => probe_len + 1,
        1 => probe_len * 3 + 10,
        2 => 1 << 20,
        _ => 1,
    };
    out.class(format!("segment-limit:{}", ["one-entry", "three-entries", "large", "one-byte"][case.seg as usize % 4]));
    let cfg = WalConfig { wal_dir: dir.path().to_path_buf(), max_segment_size, sync_mode: WalSyncMode::EveryWrite, enabled: true };
    let res: Result<(), (String, String)> = rt.block_on(async {
        let mut m = Model { acked: BTreeMap::new(), acked_max: 0, trunc: 0 };
        let mut wal = WriteAheadLog::open(cfg.clone()).await.map_err(|e| ("open-failed".to_string(), format!("{:?}", e)))?;
        let mut tag = 0u64;
        let mut cut_pending = false; // a cut happened and no append+reopen since
        let mut appended_after_cut = false;
        for (i, op) in case.ops.iter().enumerate() {
            let ctx = format!("op {} ({:?})", i, op);
            match op {
                Op::Append { rows, cols } => {
                    tag += 1;
                    let b = batch(*rows, *cols, tag);
                    let seq = wal.append(&b).await.map_err(|e| ("append-failed".to_string(), format!("{}: {:?}", ctx, e)))?;
                    if seq <= m.acked_max {
                        return Err(("append-seq-not-fresh".into(), format!("{}: append returned seq {} although {} was already acknowledged", ctx, seq, m.acked_max)));
                    }
                    let flushed = load_flushed_seq(dir.path()).unwrap_or(0);
                    if seq <= flushed {
                        return Err(("append-seq-not-fresh".into(), format!("{}: append returned seq {} although {} is recorded as flushed", ctx, seq, flushed)));
                    }
                    m.acked.insert(seq, batch_rows(&b));
                    m.acked_max = seq;
                    if cut_pending {
                        appended_after_cut = true;
                    }
                }
                Op::TruncateAcked { pick } => {
                    if m.acked.is_empty() {
                        continue;
                    }
                    // real callers only pass the sequence number of an entry that is still in the log
                    let keys: Vec<u64> = m.acked.keys().cloned().filter(|k| *k >= m.trunc).collect();
                    if keys.is_empty() {
                        continue;
                    }
                    let x = keys[pick_idx(*pick, keys.len())];
                    wal.truncate_before(x).await.map_err(|e| ("truncate-failed".to_string(), format!("{}: {:?}", ctx, e)))?;
                    m.trunc = m.trunc.max(x);
                    out.class("truncate");
                }
                Op::TruncateStartup => {
                    let f = load_flushed_seq(dir.path()).unwrap_or(0);
                    if f > 0 {
                        wal.truncate_before(f + 1).await.map_err(|e| ("truncate-failed".to_string(), format!("{}: {:?}", ctx, e)))?;
                        m.trunc = m.trunc.max(f + 1);
                        out.class("truncate-startup");
                        let segs = seg_files(dir.path());
                        if segs.values().all(|s| *s == 0) {
                            out.class("wal-emptied-by-truncation");
                            out.nontrivial = true;
                        }
                    }
                }
                Op::PersistFlushed { pick } => {
                    if m.acked.is_empty() {
                        continue;
                    }
                    // real callers only pass the sequence number of an entry that is still in the log
                    let keys: Vec<u64> = m.acked.keys().cloned().filter(|k| *k >= m.trunc).collect();
                    if keys.is_empty() {
                        continue;
                    }
                    let x = keys[pick_idx(*pick, keys.len())];
                    // the real caller truncates first, then persists
                    wal.truncate_before(x).await.map_err(|e| ("truncate-failed".to_string(), format!("{}: {:?}", ctx, e)))?;
                    m.trunc = m.trunc.max(x);
                    persist_flushed_seq(dir.path(), x).map_err(|e| ("persist-failed".to_string(), format!("{}: {:?}", ctx, e)))?;
                }
                Op::Reopen => {
                    drop(wal);
                    wal = WriteAheadLog::open(cfg.clone()).await.map_err(|e| ("open-failed".to_string(), format!("{}: {:?}", ctx, e)))?;
                    check_after_open(&wal, dir.path(), &m, &ctx)?;
                    if appended_after_cut {
                        out.nontrivial = true;
                        out.class("append-after-cut-then-reopen");
                    }
                    cut_pending = false;
                    appended_after_cut = false;
                }
                Op::CrashDuringAppend { rows, cols, cut } => {
                    tag += 1;
                    let b = batch(*rows, *cols, tag);
                    let before = seg_files(dir.path());
                    let _ = wal.append(&b).await.map_err(|e| ("append-failed".to_string(), format!("{}: {:?}", ctx, e)))?;
                    let after = seg_files(dir.path());
                    drop(wal);
                    // which file received the entry?
                    let mut target: Option<(String, u64, u64)> = None;
                    for (n, sz) in &after {
                        let pre = before.get(n).cloned();
                        match pre {
                            Some(p) if *sz > p => target = Some((n.clone(), p, *sz - p)),
                            None if *sz > 0 => {
                                target = Some((n.clone(), 0, *sz));
                                out.class("cut-just-after-rotation");
                            }
                            _ => {}
                        }
                    }
                    if let Some((name, pre, len)) = target {
                        let len = len as usize;
                        let c = match cut % 8 {
                            0 => 0,
                            1 => 1,
                            2 => 21,
                            3 => 22,
                            4 => 23,
                            5 => len - 1,
                            _ => (*cut as usize >> 3) % len,
                        }
                        .min(len - 1);
                        out.class(if c == 0 {
                            "cut-at-0"
                        } else if c < 22 {
                            "cut-in-header"
                        } else if c == 22 {
                            "cut-between-header-and-payload"
                        } else {
                            "cut-in-payload"
                        });
                        let f = std::fs::OpenOptions::new().write(true).open(dir.path().join(&name)).map_err(|e| ("harness-io".to_string(), e.to_string()))?;
                        f.set_len(pre + c as u64).map_err(|e| ("harness-io".to_string(), e.to_string()))?;
                        cut_pending = true;
                        appended_after_cut = false;
                    }
                    wal = WriteAheadLog::open(cfg.clone()).await.map_err(|e| ("open-failed".to_string(), format!("{}: {:?}", ctx, e)))?;
                    check_after_open(&wal, dir.path(), &m, &ctx)?;
                }
                Op::CrashDuringPersist { pick, keep } => {
                    if m.acked.is_empty() {
                        continue;
                    }
                    // real callers only pass the sequence number of an entry that is still in the log
                    let keys: Vec<u64> = m.acked.keys().cloned().filter(|k| *k >= m.trunc).collect();
                    if keys.is_empty() {
                        continue;
                    }
                    let x = keys[pick_idx(*pick, keys.len())];
                    wal.truncate_before(x).await.map_err(|e| ("truncate-failed".to_string(), format!("{}: {:?}", ctx, e)))?;
                    m.trunc = m.trunc.max(x);
                    let keep = (*keep % 9) as usize;
                    let bytes = x.to_le_bytes();
                    std::fs::write(dir.path().join("flushed_seq"), &bytes[..keep]).map_err(|e| ("harness-io".to_string(), e.to_string()))?;
                    out.class(if keep == 8 { "flushed-file-new" } else { "flushed-file-torn" });
                    drop(wal);
                    wal = WriteAheadLog::open(cfg.clone()).await.map_err(|e| ("open-failed".to_string(), format!("{}: {:?}", ctx, e)))?;
                    check_after_open(&wal, dir.path(), &m, &ctx)?;
                }
            }
        }
        // final reopen closes every history
        drop(wal);
        let wal = WriteAheadLog::open(cfg.clone()).await.map_err(|e| ("open-failed".to_string(), format!("final: {:?}", e)))?;
        check_after_open(&wal, dir.path(), &m, "final reopen")?;
        if appended_after_cut {
            out.nontrivial = true;
            out.class("append-after-cut-then-reopen");
        }
        Ok(())
    });
    if let Err((sig, msg)) = res {
        out.set_fail(sig, msg);
    }
    out
}

fn op() -> impl Strategy<Value = Op> {
    prop_oneof![
        8 => (any::<u8>(), any::<u8>()).prop_map(|(rows, cols)| Op::Append { rows, cols }),
        2 => any::<u16>().prop_map(|pick| Op::TruncateAcked { pick }),
        2 => Just(Op::TruncateStartup),
        2 => any::<u16>().prop_map(|pick| Op::PersistFlushed { pick }),
        2 => Just(Op::Reopen),
        4 => (any::<u8>(), any::<u8>(), any::<u16>()).prop_map(|(rows, cols, cut)| Op::CrashDuringAppend { rows, cols, cut }),
        1 => (any::<u16>(), any::<u8>()).prop_map(|(pick, keep)| Op::CrashDuringPersist { pick, keep }),
    ]
}

fn strategy(t: Tier) -> BoxedStrategy<Case> {
    (0u8..4, prop::collection::vec(op(), 1..t.pick(25usize, 50usize))).prop_map(|(seg, ops)| Case { seg, ops }).boxed()
}

// ---- the log as its real caller uses it: sequence numbers through the Ingester --------------------

/// One step of an ingester process' life.  A crash is emulated at a named pause point of the
/// write / flush path (the step's future is dropped there) or by dropping the process between
/// steps, optionally with one more, never acknowledged entry cut short at the end of the log.
#[derive(Clone, Debug, Serialize, Deserialize)]
pub enum IOp {
    /// write a batch of `rows` rows (crosses the flush threshold every `flush_rows` rows)
    Write { rows: u8, crash_at: Option<u8> },
    /// graceful shutdown: the flush timer flushes what is buffered, then the process ends
    Shutdown { crash_at: Option<u8> },
    /// kill the process; `torn` = bytes of one more entry that reached the disk (0 = none)
    Kill { torn: u16 },
}

#[derive(Clone, Debug, Serialize, Deserialize)]
pub struct ICase {
    /// 0 = every entry gets its own segment, 1 = three entries per segment, 2 = one large segment
    pub segments: u8,
    pub flush_rows: u8,
    pub ops: Vec<IOp>,
    /// pause point at which a start-up (ensure_wal, with its recovery flush) is crashed, per restart
    pub restart_crash: Vec<Option<u8>>,
    /// a crash right after the log was truncated catches the flushed-sequence file being rewritten
    /// (it is written in place): the file is left with this many of its 8 bytes
    pub mark_torn: Option<u8>,
}

const PAUSE_POINTS: [&str; 4] = ["ingester:after_wal_append", "flush:after_register", "flush:after_truncate", "flush:after_persist"];

/// read-only scan of the log directory: (seq, payload fingerprint) of every complete entry, and the mark
fn scan_wal(dir: &Path) -> (BTreeMap<u64, u64>, Option<u64>) {
    let mut entries = BTreeMap::new();
    let mut names: Vec<_> = std::fs::read_dir(dir).map(|rd| rd.filter_map(|e| e.ok()).map(|e| e.path()).collect()).unwrap_or_default();
    names.sort();
    for p in &names {
        let name = p.file_name().and_then(|n| n.to_str()).unwrap_or("");
        if !(name.starts_with("segment-") && name.ends_with(".wal")) {
            continue;
        }
        let data = std::fs::read(p).unwrap_or_default();
        let mut off = 0usize;
        while off + 22 <= data.len() {
            if &data[off..off + 4] != b"CSWA" {
                break;
            }
            let seq = u64::from_le_bytes(data[off + 6..off + 14].try_into().unwrap());
            let len = u32::from_le_bytes(data[off + 14..off + 18].try_into().unwrap()) as usize;
            if off + 22 + len > data.len() {
                break;
            }
            let mut h: u64 = 0xcbf29ce484222325;
            for b in &data[off + 22..off + 22 + len] {
                h ^= *b as u64;
                h = h.wrapping_mul(0x100000001b3);
            }
            entries.insert(seq, h);
            off += 22 + len;
        }
    }
    let mark = std::fs::read(dir.join("flushed_seq")).ok().and_then(|b| if b.len() == 8 { Some(u64::from_le_bytes(b[..8].try_into().unwrap())) } else { None });
    (entries, mark)
}

pub fn exec_ingester(case: &ICase) -> Outcome {
    use cardinalsin::ingester::{Ingester, IngesterConfig};
    use cardinalsin::metadata::{LocalMetadataClient, MetadataClient};
    use cardinalsin::schema::MetricSchema;
    let rt = crate::util::rt_paused();
    let dir = scratch_dir();
    let wal_dir = dir.path().join("wal");
    let out = rt.block_on(async {
        let mut out = Outcome::pass();
        let store: Arc<dyn object_store::ObjectStore> = Arc::new(object_store::memory::InMemory::new());
        let md: Arc<dyn MetadataClient> = Arc::new(LocalMetadataClient::new());
        // size of one entry, to set the segment limit in entries
        let probe = crate::gen::build_batch(&crate::gen::BatchSpec { schema: 0, rows: vec![crate::gen::RowSpec { ts_step: 0, ts_jitter: 0, metric: 0, labels: [None, None, None], fval: Some(0), ival: None }] }, 1_700_000_000_000_000_000, 0, None);
        let entry_len = {
            let d = scratch_dir();
            let mut w = WriteAheadLog::open(WalConfig { wal_dir: d.path().to_path_buf(), max_segment_size: 1 << 30, sync_mode: WalSyncMode::EveryWrite, enabled: true }).await.expect("probe wal");
            let _ = w.append(&probe).await;
            drop(w);
            seg_files(d.path()).values().sum::<u64>() as usize
        };
        let max_segment_size = match case.segments % 3 {
            0 => 1,
            1 => entry_len * 3 + 8,
            _ => 1 << 30,
        };
        let cfg = || IngesterConfig { flush_row_count: 1 + (case.flush_rows as usize % 4), flush_interval: std::time::Duration::from_secs(3600), wal: WalConfig { wal_dir: wal_dir.clone(), max_segment_size, sync_mode: WalSyncMode::EveryWrite, enabled: true }, ..Default::default() };
        // crash point: the armed pause point never returns; the step is then abandoned
        let armed: Arc<parking_lot::Mutex<Option<&'static str>>> = Arc::new(parking_lot::Mutex::new(None));
        {
            let armed = armed.clone();
            cardinalsin::verif_hooks::set_pause_handler(Some(Arc::new(move |point: &'static str| {
                let hit = *armed.lock() == Some(point);
                Box::pin(async move {
                    if hit {
                        std::future::pending::<()>().await;
                    }
                })
            })));
        }
        let limit = std::time::Duration::from_secs(100_000);
        let mut seen: BTreeMap<u64, u64> = BTreeMap::new();
        let mut high = 0u64; // highest sequence ever acknowledged or recorded as flushed
        let mut rid = 0i64;
        let mut proc: Option<Ingester> = None;
        let mut restarts = 0usize;
        let mut crashes_in_flush = 0u32;
        // judge the log after a step: every entry that is new must lie above everything seen before
        let mut judge = |what: &str, out: &mut Outcome, seen: &mut BTreeMap<u64, u64>, high: &mut u64| -> bool {
            let (entries, mark) = scan_wal(&wal_dir);
            for (seq, fp) in &entries {
                match seen.get(seq) {
                    Some(old) if old != fp => {
                        out.set_fail("ingester:sequence-number-reused", format!("after {}: sequence {} now names another entry than before", what, seq));
                        return false;
                    }
                    Some(_) => {}
                    None => {
                        if *seq <= *high {
                            out.set_fail("ingester:sequence-number-at-or-below-acknowledged", format!("after {}: a new entry got sequence {} although {} had already been acknowledged or recorded as flushed (log now holds {:?}, mark {:?})", what, seq, high, entries.keys().collect::<Vec<_>>(), mark));
                            return false;
                        }
                    }
                }
            }
            for (seq, fp) in entries {
                seen.insert(seq, fp);
                *high = (*high).max(seq);
            }
            if let Some(m) = mark {
                *high = (*high).max(m);
            }
            true
        };
        // the process died right after truncating the log: the rewrite of the mark had begun
        let tear_mark = |point: Option<&'static str>, out: &mut Outcome| {
            if point == Some("flush:after_truncate") {
                if let Some(k) = case.mark_torn {
                    let p = wal_dir.join("flushed_seq");
                    if let Ok(f) = std::fs::OpenOptions::new().write(true).create(true).open(&p) {
                        let _ = f.set_len((k % 8) as u64);
                        out.class("flushed-mark-torn-by-the-crash");
                    }
                }
            }
        };
        let mut ops = case.ops.clone();
        ops.push(IOp::Write { rows: 1, crash_at: None });
        for (i, op) in ops.iter().enumerate() {
            // (re)start when needed
            if proc.is_none() {
                let mut attempts = 0;
                loop {
                    attempts += 1;
                    let crash = if attempts == 1 { case.restart_crash.get(restarts).cloned().flatten() } else { None };
                    restarts += 1;
                    let point = crash.map(|c| PAUSE_POINTS[c as usize % 4]);
                    *armed.lock() = point;
                    let mut ing = Ingester::new(cfg(), store.clone(), md.clone(), crate::props::c06::storage_config(), MetricSchema::default_metrics());
                    let r = tokio::time::timeout(limit, ing.ensure_wal()).await;
                    *armed.lock() = None;
                    if !judge(&format!("restart {}", restarts), &mut out, &mut seen, &mut high) {
                        return out;
                    }
                    match r {
                        Ok(Ok(())) => {
                            proc = Some(ing);
                            break;
                        }
                        Ok(Err(e)) => {
                            out.set_fail("ingester:cannot-restart", format!("ensure_wal failed without a fault: {:?}", e));
                            return out;
                        }
                        Err(_) => {
                            // crashed during start-up (in its recovery flush)
                            out.class("crash-during-recovery-flush");
                            crashes_in_flush += 1;
                            drop(ing);
                            tear_mark(point, &mut out);
                            if attempts >= 3 {
                                out.set_fail("ingester:cannot-restart", "three start-ups in a row did not finish");
                                return out;
                            }
                        }
                    }
                }
            }
            match op {
                IOp::Write { rows, crash_at } => {
                    let n = 1 + (*rows as usize % 3);
                    let spec = crate::gen::BatchSpec { schema: 0, rows: (0..n).map(|k| crate::gen::RowSpec { ts_step: k as u16, ts_jitter: 0, metric: 0, labels: [None, None, None], fval: Some(1), ival: None }).collect() };
                    let b = crate::gen::build_batch(&spec, 1_700_000_000_000_000_000, rid, None);
                    rid += n as i64;
                    let point = crash_at.map(|c| PAUSE_POINTS[c as usize % 4]);
                    *armed.lock() = point;
                    let r = tokio::time::timeout(limit, proc.as_ref().unwrap().write(b)).await;
                    *armed.lock() = None;
                    if r.is_err() {
                        tear_mark(point, &mut out);
                        out.class(format!("crash-at:{}", PAUSE_POINTS[crash_at.unwrap_or(0) as usize % 4]));
                        if crash_at.map(|c| c % 4 != 0).unwrap_or(false) {
                            crashes_in_flush += 1;
                        }
                        proc = None;
                    }
                }
                IOp::Shutdown { crash_at } => {
                    let ing = proc.take().unwrap();
                    let point = crash_at.map(|c| PAUSE_POINTS[1 + c as usize % 3]);
                    *armed.lock() = point;
                    ing.shutdown_token().cancel();
                    let r = tokio::time::timeout(limit, ing.run_flush_timer()).await;
                    *armed.lock() = None;
                    if r.is_err() {
                        tear_mark(point, &mut out);
                        out.class("crash-during-shutdown-flush");
                        crashes_in_flush += 1;
                    } else {
                        out.class("graceful-shutdown");
                    }
                }
                IOp::Kill { torn } => {
                    proc = None;
                    if *torn > 0 {
                        // one more entry was being appended: its first `torn` bytes are on disk
                        if let Ok(mut w) = WriteAheadLog::open(cfg().wal).await {
                            let before = seg_files(&wal_dir);
                            if w.append(&probe).await.is_ok() {
                                drop(w);
                                let after = seg_files(&wal_dir);
                                for (name, len) in &after {
                                    let old = before.get(name).cloned().unwrap_or(0);
                                    if *len > old {
                                        let keep = old + (*torn as u64 % (*len - old));
                                        if let Ok(f) = std::fs::OpenOptions::new().write(true).open(wal_dir.join(name)) {
                                            let _ = f.set_len(keep);
                                        }
                                        out.class(if old == 0 { "torn-entry-alone-in-its-segment" } else { "torn-entry-at-the-tail" });
                                    }
                                }
                            }
                        }
                    }
                }
            }
            if !judge(&format!("op {} {:?}", i, op), &mut out, &mut seen, &mut high) {
                return out;
            }
        }
        out.count("restarts", restarts as u64);
        out.nontrivial = restarts >= 2 && crashes_in_flush >= 1;
        out
    });
    cardinalsin::verif_hooks::set_pause_handler(None);
    out
}

fn istrategy(t: Tier) -> BoxedStrategy<ICase> {
    let pp = || prop::option::weighted(0.35, 0u8..4);
    let op = prop_oneof![
        5 => (0u8..3, pp()).prop_map(|(rows, crash_at)| IOp::Write { rows, crash_at }),
        2 => pp().prop_map(|crash_at| IOp::Shutdown { crash_at }),
        2 => prop_oneof![1 => Just(0u16), 1 => Just(10u16), 1 => Just(22u16), 2 => any::<u16>()].prop_map(|torn| IOp::Kill { torn }),
    ];
    (0u8..3, 0u8..4, prop::collection::vec(op, 1..t.pick(10usize, 18usize)), prop::collection::vec(prop::option::weighted(0.3, 1u8..4), 6), prop::option::weighted(0.5, 0u8..8))
        .prop_map(|(segments, flush_rows, ops, restart_crash, mark_torn)| ICase { segments, flush_rows, ops, restart_crash, mark_torn })
        .boxed()
}

pub fn def() -> PropDef {
    PropDef {
        id: "C05",
        level: "exploration",
        rule: "histories of <=25 (thorough 50) ops on the public WriteAheadLog API over real files: append(1-5 rows, 1-3 columns), flush-style truncate_before(acked x) (+persist x), start-up truncate_before(flushed+1), clean reopen, crash-during-append (entry cut at byte 0/1/21/22/23/len-1/any, also when the append had just rotated to a new segment) + reopen, crash-during-persist (flushed file left with 0-8 bytes) + reopen; segment limit in {one entry, three entries, large, 1 byte}. After every reopen: entries strictly increasing, each equal to the acknowledged payload of its seq, none unacknowledged, every acknowledged entry >= truncation point present, read_entries_after = filter, next_seq > max(acked, flushed file); every append returns a fresh seq. Non-trivial = a cut inside an entry followed by an append and a further reopen, or start-up truncation that left no entry in the log. ingester-sequences: the log as its real caller uses it - a real Ingester (WAL synced on every write, segments of one / three entries or one large one, flush every 1-4 rows) through histories of writes, graceful shutdown flushes, kills (optionally with one more entry cut short at the end of the log) and restarts, each write / shutdown flush / start-up (with its recovery flush) optionally crashed at a pause point of the write / flush path (after the WAL append, after registration, after truncation, after the mark was persisted; a crash right after the truncation may leave the flushed-sequence file, which is rewritten in place, with 0-7 of its bytes); the log directory is scanned read-only after every step: an entry that is new must carry a sequence number above every one acknowledged or recorded as flushed before, and a sequence number never names two entries (non-trivial there = at least two restarts and a crash inside a flush).",
        assumptions: &["a crash is modelled at the file API: files contain what was written, the last write may be cut at any byte (torn writes below the file API / reordering of un-fsynced data are not modelled; sync mode is every_write)", "truncate/persist are generated with the real callers' discipline (flush_batches, ensure_wal)"],
        subs: || {
            vec![
                Box::new(Sub::<Case> { name: "history", cases: |t| t.scale(60_000, 6), strategy, exec }),
                Box::new(Sub::<ICase> { name: "ingester-sequences", cases: |t| t.scale(12_000, 6), strategy: istrategy, exec: exec_ingester }),
            ]
        },
    }
}
