//! C05 — WAL recovery is exact under torn writes; sequence numbers never regress.
//!
//! Real files (tmpfs when available), public `WriteAheadLog` API only.  The
//! generator respects the call discipline of the real callers
//! (`flush_batches`: truncate_before(x) then persist_flushed_seq(x), x <= last
//! acked; `ensure_wal`: truncate_before(loaded_flushed + 1)).

use crate::core::*;
use crate::util::*;
use arrow_array::{Int64Array, RecordBatch, StringArray};
use arrow_schema::{DataType, Field, Schema};
use cardinalsin::ingester::{load_flushed_seq, persist_flushed_seq, WalConfig, WalSyncMode, WriteAheadLog};
use proptest::prelude::*;
use serde::{Deserialize, Serialize};
use std::collections::BTreeMap;
use std::path::Path;
use std::sync::Arc;

#[derive(Clone, Debug, Serialize, Deserialize)]
pub enum Op {
    Append { rows: u8, cols: u8 },
    /// flush-style truncation: truncate_before(x), x picked among acked seqs
    TruncateAcked { pick: u16 },
    /// start-up truncation: truncate_before(load_flushed_seq + 1)
    TruncateStartup,
    /// persist_flushed_seq(x), x picked among acked seqs
    PersistFlushed { pick: u16 },
    /// clean close + open
    Reopen,
    /// append, then cut the written entry at byte `cut` (mapped into [0, entry_len)), then reopen
    CrashDuringAppend { rows: u8, cols: u8, cut: u16 },
    /// crash while the flushed-sequence file was being rewritten with value x: the
    /// file is left with the first `keep` bytes of the new value (8 = complete), then reopen
    CrashDuringPersist { pick: u16, keep: u8 },
}

#[derive(Clone, Debug, Serialize, Deserialize)]
pub struct Case {
    /// 0: just above one entry, 1: about three entries, 2: large, 3: 1 byte (every append rotates)
    pub seg: u8,
    pub ops: Vec<Op>,
}

fn batch(rows: u8, cols: u8, tag: u64) -> RecordBatch {
    let rows = 1 + (rows % 5) as usize;
    let cols = 1 + (cols % 3) as usize;
    let mut fields = vec![Field::new("timestamp", DataType::Int64, false)];
    let mut arrays: Vec<Arc<dyn arrow_array::Array>> = vec![Arc::new(Int64Array::from((0..rows).map(|r| (tag * 1000 + r as u64) as i64).collect::<Vec<_>>()))];
    for c in 1..cols {
        fields.push(Field::new(format!("l{}", c), DataType::Utf8, true));
        arrays.push(Arc::new(StringArray::from((0..rows).map(|r| if (r + c) % 4 == 0 { None } else { Some(format!("v{}-{}-{}", tag, c, r)) }).collect::<Vec<_>>())));
    }
    RecordBatch::try_new(Arc::new(Schema::new(fields)), arrays).unwrap()
}

fn batch_rows(b: &RecordBatch) -> Vec<String> {
    (0..b.num_rows())
        .map(|r| {
            let mut s = String::new();
            for c in 0..b.num_columns() {
                s.push_str(&arrow::util::display::array_value_to_string(b.column(c), r).unwrap_or_default());
                s.push('|');
            }
            s
        })
        .collect()
}

pub fn seg_files(dir: &Path) -> BTreeMap<String, u64> {
    let mut m = BTreeMap::new();
    if let Ok(rd) = std::fs::read_dir(dir) {
        for e in rd.flatten() {
            let n = e.file_name().to_string_lossy().to_string();
            if n.starts_with("segment-") && n.ends_with(".wal") {
                m.insert(n, e.metadata().map(|m| m.len()).unwrap_or(0));
            }
        }
    }
    m
}

pub fn scratch_dir() -> tempfile::TempDir {
    let shm = Path::new("/dev/shm");
    if shm.is_dir() {
        if let Ok(d) = tempfile::Builder::new().prefix("csverif-").tempdir_in(shm) {
            return d;
        }
    }
    tempfile::Builder::new().prefix("csverif-").tempdir().expect("tempdir")
}

struct Model {
    acked: BTreeMap<u64, Vec<String>>,
    acked_max: u64,
    trunc: u64,
}

fn check_after_open(wal: &WriteAheadLog, dir: &Path, m: &Model, ctx: &str) -> Result<(), (String, String)> {
    let entries = wal.read_entries().map_err(|e| ("read-entries-error".to_string(), format!("{}: read_entries failed: {:?}", ctx, e)))?;
    let mut last = 0u64;
    for e in &entries {
        if e.seq <= last {
            return Err(("entries-not-increasing".into(), format!("{}: read_entries returned seq {} after {}", ctx, e.seq, last)));
        }
        last = e.seq;
        match m.acked.get(&e.seq) {
            Some(rows) => {
                let got: Vec<String> = match e.batches() {
                    Ok(bs) => bs.iter().flat_map(batch_rows).collect(),
                    Err(err) => return Err(("acked-entry-undecodable".into(), format!("{}: entry {} does not decode: {:?}", ctx, e.seq, err))),
                };
                if &got != rows {
                    return Err(("entry-content-differs".into(), format!("{}: entry {} holds {:?}, acknowledged {:?}", ctx, e.seq, got, rows)));
                }
            }
            None => {
                return Err(("partial-or-unknown-entry-returned".into(), format!("{}: read_entries returned seq {} which was never acknowledged (a cut write?)", ctx, e.seq)));
            }
        }
    }
    for seq in m.acked.keys() {
        if *seq >= m.trunc && !entries.iter().any(|e| e.seq == *seq) {
            return Err(("acked-entry-missing".into(), format!("{}: acknowledged entry {} (>= truncation point {}) is not returned; returned {:?}", ctx, seq, m.trunc, entries.iter().map(|e| e.seq).collect::<Vec<_>>())));
        }
    }
    for after in [0u64, m.acked_max / 2, m.acked_max, m.acked_max + 1] {
        let a = wal.read_entries_after(after).map_err(|e| ("read-entries-error".to_string(), format!("{}: {:?}", ctx, e)))?;
        let want: Vec<u64> = entries.iter().map(|e| e.seq).filter(|s| *s > after).collect();
        let got: Vec<u64> = a.iter().map(|e| e.seq).collect();
        if want != got {
            return Err(("read-entries-after-differs".into(), format!("{}: read_entries_after({}) = {:?}, expected {:?}", ctx, after, got, want)));
        }
    }
    let flushed = load_flushed_seq(dir).unwrap_or(0);
    let floor = m.acked_max.max(flushed);
    if wal.next_seq() <= floor {
        return Err((
            "next-seq-regressed".into(),
            format!("{}: next_seq() = {} although seq {} was already acknowledged / recorded as flushed (flushed file = {})", ctx, wal.next_seq(), floor, flushed),
        ));
    }
    Ok(())
}

pub fn exec(case: &Case) -> Outcome {
    let rt = rt_plain();
    let dir = scratch_dir();
    let mut out = Outcome::pass();
    // entry size of a small batch, to pick segment limits
    let probe_len = {
        let d2 = scratch_dir();
        rt.block_on(async {
            let mut w = WriteAheadLog::open(WalConfig { wal_dir: d2.path().to_path_buf(), max_segment_size: 0, sync_mode: WalSyncMode::EveryWrite, enabled: true }).await.unwrap();
            w.append(&batch(0, 1, 1)).await.unwrap();
        });
        seg_files(d2.path()).values().sum::<u64>() as usize
    };
    let max_segment_size = match case.seg % 4 {
        0 => probe_len + 1,
        1 => probe_len * 3 + 10,
        2 => 1 << 20,
        _ => 1,
    };
    out.class(format!("segment-limit:{}", ["one-entry", "three-entries", "large", "one-byte"][case.seg as usize % 4]));
    let cfg = WalConfig { wal_dir: dir.path().to_path_buf(), max_segment_size, sync_mode: WalSyncMode::EveryWrite, enabled: true };
    let res: Result<(), (String, String)> = rt.block_on(async {
        let mut m = Model { acked: BTreeMap::new(), acked_max: 0, trunc: 0 };
        let mut wal = WriteAheadLog::open(cfg.clone()).await.map_err(|e| ("open-failed".to_string(), format!("{:?}", e)))?;
        let mut tag = 0u64;
        let mut cut_pending = false; // a cut happened and no append+reopen since
        let mut appended_after_cut = false;
        for (i, op) in case.ops.iter().enumerate() {
            let ctx = format!("op {} ({:?})", i, op);
            match op {
                Op::Append { rows, cols } => {
                    tag += 1;
                    let b = batch(*rows, *cols, tag);
                    let seq = wal.append(&b).await.map_err(|e| ("append-failed".to_string(), format!("{}: {:?}", ctx, e)))?;
                    if seq <= m.acked_max {
                        return Err(("append-seq-not-fresh".into(), format!("{}: append returned seq {} although {} was already acknowledged", ctx, seq, m.acked_max)));
                    }
                    let flushed = load_flushed_seq(dir.path()).unwrap_or(0);
                    if seq <= flushed {
                        return Err(("append-seq-not-fresh".into(), format!("{}: append returned seq {} although {} is recorded as flushed", ctx, seq, flushed)));
                    }
                    m.acked.insert(seq, batch_rows(&b));
                    m.acked_max = seq;
                    if cut_pending {
                        appended_after_cut = true;
                    }
                }
                Op::TruncateAcked { pick } => {
                    if m.acked.is_empty() {
                        continue;
                    }
                    // real callers only pass the sequence number of an entry that is still in the log
                    let keys: Vec<u64> = m.acked.keys().cloned().filter(|k| *k >= m.trunc).collect();
                    if keys.is_empty() {
                        continue;
                    }
                    let x = keys[pick_idx(*pick, keys.len())];
                    wal.truncate_before(x).await.map_err(|e| ("truncate-failed".to_string(), format!("{}: {:?}", ctx, e)))?;
                    m.trunc = m.trunc.max(x);
                    out.class("truncate");
                }
                Op::TruncateStartup => {
                    let f = load_flushed_seq(dir.path()).unwrap_or(0);
                    if f > 0 {
                        wal.truncate_before(f + 1).await.map_err(|e| ("truncate-failed".to_string(), format!("{}: {:?}", ctx, e)))?;
                        m.trunc = m.trunc.max(f + 1);
                        out.class("truncate-startup");
                        let segs = seg_files(dir.path());
                        if segs.values().all(|s| *s == 0) {
                            out.class("wal-emptied-by-truncation");
                            out.nontrivial = true;
                        }
                    }
                }
                Op::PersistFlushed { pick } => {
                    if m.acked.is_empty() {
                        continue;
                    }
                    // real callers only pass the sequence number of an entry that is still in the log
                    let keys: Vec<u64> = m.acked.keys().cloned().filter(|k| *k >= m.trunc).collect();
                    if keys.is_empty() {
                        continue;
                    }
                    let x = keys[pick_idx(*pick, keys.len())];
                    // the real caller truncates first, then persists
                    wal.truncate_before(x).await.map_err(|e| ("truncate-failed".to_string(), format!("{}: {:?}", ctx, e)))?;
                    m.trunc = m.trunc.max(x);
                    persist_flushed_seq(dir.path(), x).map_err(|e| ("persist-failed".to_string(), format!("{}: {:?}", ctx, e)))?;
                }
                Op::Reopen => {
                    drop(wal);
                    wal = WriteAheadLog::open(cfg.clone()).await.map_err(|e| ("open-failed".to_string(), format!("{}: {:?}", ctx, e)))?;
                    check_after_open(&wal, dir.path(), &m, &ctx)?;
                    if appended_after_cut {
                        out.nontrivial = true;
                        out.class("append-after-cut-then-reopen");
                    }
                    cut_pending = false;
                    appended_after_cut = false;
                }
                Op::CrashDuringAppend { rows, cols, cut } => {
                    tag += 1;
                    let b = batch(*rows, *cols, tag);
                    let before = seg_files(dir.path());
                    let _ = wal.append(&b).await.map_err(|e| ("append-failed".to_string(), format!("{}: {:?}", ctx, e)))?;
                    let after = seg_files(dir.path());
                    drop(wal);
                    // which file received the entry?
                    let mut target: Option<(String, u64, u64)> = None;
                    for (n, sz) in &after {
                        let pre = before.get(n).cloned();
                        match pre {
                            Some(p) if *sz > p => target = Some((n.clone(), p, *sz - p)),
                            None if *sz > 0 => {
                                target = Some((n.clone(), 0, *sz));
                                out.class("cut-just-after-rotation");
                            }
                            _ => {}
                        }
                    }
                    if let Some((name, pre, len)) = target {
                        let len = len as usize;
                        let c = match cut % 8 {
                            0 => 0,
                            1 => 1,
                            2 => 21,
                            3 => 22,
                            4 => 23,
                            5 => len - 1,
                            _ => (*cut as usize >> 3) % len,
                        }
                        .min(len - 1);
                        out.class(if c == 0 {
                            "cut-at-0"
                        } else if c < 22 {
                            "cut-in-header"
                        } else if c == 22 {
                            "cut-between-header-and-payload"
                        } else {
                            "cut-in-payload"
                        });
                        let f = std::fs::OpenOptions::new().write(true).open(dir.path().join(&name)).map_err(|e| ("harness-io".to_string(), e.to_string()))?;
                        f.set_len(pre + c as u64).map_err(|e| ("harness-io".to_string(), e.to_string()))?;
                        cut_pending = true;
                        appended_after_cut = false;
                    }
                    wal = WriteAheadLog::open(cfg.clone()).await.map_err(|e| ("open-failed".to_string(), format!("{}: {:?}", ctx, e)))?;
                    check_after_open(&wal, dir.path(), &m, &ctx)?;
                }
                Op::CrashDuringPersist { pick, keep } => {
                    if m.acked.is_empty() {
                        continue;
                    }
                    // real callers only pass the sequence number of an entry that is still in the log
                    let keys: Vec<u64> = m.acked.keys().cloned().filter(|k| *k >= m.trunc).collect();
                    if keys.is_empty() {
                        continue;
                    }
                    let x = keys[pick_idx(*pick, keys.len())];
                    wal.truncate_before(x).await.map_err(|e| ("truncate-failed".to_string(), format!("{}: {:?}", ctx, e)))?;
                    m.trunc = m.trunc.max(x);
                    let keep = (*keep % 9) as usize;
                    let bytes = x.to_le_bytes();
                    std::fs::write(dir.path().join("flushed_seq"), &bytes[..keep]).map_err(|e| ("harness-io".to_string(), e.to_string()))?;
                    out.class(if keep == 8 { "flushed-file-new" } else { "flushed-file-torn" });
                    drop(wal);
                    wal = WriteAheadLog::open(cfg.clone()).await.map_err(|e| ("open-failed".to_string(), format!("{}: {:?}", ctx, e)))?;
                    check_after_open(&wal, dir.path(), &m, &ctx)?;
                }
            }
        }
        // final reopen closes every history
        drop(wal);
        let wal = WriteAheadLog::open(cfg.clone()).await.map_err(|e| ("open-failed".to_string(), format!("final: {:?}", e)))?;
        check_after_open(&wal, dir.path(), &m, "final reopen")?;
        if appended_after_cut {
            out.nontrivial = true;
            out.class("append-after-cut-then-reopen");
        }
        Ok(())
    });
    if let Err((sig, msg)) = res {
        out.set_fail(sig, msg);
    }
    out
}

fn op() -> impl Strategy<Value = Op> {
    prop_oneof![
        8 => (any::<u8>(), any::<u8>()).prop_map(|(rows, cols)| Op::Append { rows, cols }),
        2 => any::<u16>().prop_map(|pick| Op::TruncateAcked { pick }),
        2 => Just(Op::TruncateStartup),
        2 => any::<u16>().prop_map(|pick| Op::PersistFlushed { pick }),
        2 => Just(Op::Reopen),
        4 => (any::<u8>(), any::<u8>(), any::<u16>()).prop_map(|(rows, cols, cut)| Op::CrashDuringAppend { rows, cols, cut }),
        1 => (any::<u16>(), any::<u8>()).prop_map(|(pick, keep)| Op::CrashDuringPersist { pick, keep }),
    ]
}

fn strategy(t: Tier) -> BoxedStrategy<Case> {
    (0u8..4, prop::collection::vec(op(), 1..t.pick(25usize, 50usize))).prop_map(|(seg, ops)| Case { seg, ops }).boxed()
}

pub fn def() -> PropDef {
    PropDef {
        id: "C05",
        level: "exploration",
        rule: "histories of <=25 (thorough 50) ops on the public WriteAheadLog API over real files: append(1-5 rows, 1-3 columns), flush-style truncate_before(acked x) (+persist x), start-up truncate_before(flushed+1), clean reopen, crash-during-append (entry cut at byte 0/1/21/22/23/len-1/any, also when the append had just rotated to a new segment) + reopen, crash-during-persist (flushed file left with 0-8 bytes) + reopen; segment limit in {one entry, three entries, large, 1 byte}. After every reopen: entries strictly increasing, each equal to the acknowledged payload of its seq, none unacknowledged, every acknowledged entry >= truncation point present, read_entries_after = filter, next_seq > max(acked, flushed file); every append returns a fresh seq. Non-trivial = a cut inside an entry followed by an append and a further reopen, or start-up truncation that left no entry in the log.",
        assumptions: &["a crash is modelled at the file API: files contain what was written, the last write may be cut at any byte (torn writes below the file API / reordering of un-fsynced data are not modelled; sync mode is every_write)", "truncate/persist are generated with the real callers' discipline (flush_batches, ensure_wal)"],
        subs: || vec![Box::new(Sub::<Case> { name: "history", cases: |t| t.scale(60_000, 6), strategy, exec })],
    }
}
