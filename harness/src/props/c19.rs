//! C19 — write routing always terminates on a node that can accept writes.
//!
//! Stateful: generated membership / health histories interleaved with
//! `route_write` calls; reference model of the registry; every route runs under
//! a poll budget (deterministic hang detection).

use crate::core::*;
use crate::util::*;
use cardinalsin::cluster::{AssignmentStrategy, DistributedWriteRouter, NodeInfo, NodeRegistry, NodeStatus, NodeType, ShardAssignment};
use proptest::prelude::*;
use serde::{Deserialize, Serialize};
use std::collections::BTreeMap;
use std::sync::Arc;

#[derive(Clone, Debug, Serialize, Deserialize)]
pub enum Op {
    Register {
        node: u8,
        ty: u8,
        status: u8,
        load: u8,
        /// how long the node has been silent when it enters the history: index into SILENT_S
        #[serde(default)]
        silent: u8,
    },
    /// one pass of NodeRegistry::run_health_checks (the registry's own failure detector: nodes whose
    /// last heartbeat is older than half / all of the timeout become suspected / failed)
    HealthCheck,
    Heartbeat(u8),
    Drain(u8),
    SetLoad(u8, u8),
    Remove(u8),
    Rebalance,
    Route(u8),
    /// route every shard id of the key space once
    Sweep,
}

#[derive(Clone, Debug, Serialize, Deserialize)]
pub struct Case {
    pub strategy: u8,
    pub ops: Vec<Op>,
}

#[derive(Clone, Debug)]
struct MNode {
    ty: u8,
    status: u8, // 0 healthy 1 suspected 2 failed 3 draining
    load: u8,
    silent_s: u64,
}
impl MNode {
    fn eligible(&self) -> bool {
        self.status == 0 && (self.ty == 0 || self.ty == 2) && self.load < 95
    }
}

/// registry timeout and the silence ages used (far from the thresholds at timeout/2 and timeout, so
/// that real elapsed milliseconds cannot flip a verdict; the heartbeat instant is a std Instant)
const TIMEOUT_S: u64 = 120;
const SILENT_S: [u64; 3] = [0, 80, 200];
const NODES: u8 = 5;
const SHARDS: u8 = 250;
const POLL_BUDGET: u32 = 64;

fn node_id(n: u8) -> String {
    format!("node-{}", n % NODES)
}

pub fn exec(case: &Case) -> Outcome {
    // virtual clock: the failure detector's 5 s interval costs nothing
    let rt = rt_paused();
    rt.block_on(async {
        let mut health: Option<tokio::task::JoinHandle<()>> = None;
        let strategy = match case.strategy % 3 {
            0 => AssignmentStrategy::ConsistentHash,
            1 => AssignmentStrategy::RoundRobin,
            _ => AssignmentStrategy::LoadBased,
        };
        let registry = Arc::new(NodeRegistry::new(TIMEOUT_S));
        let assignment = Arc::new(ShardAssignment::new(registry.clone(), strategy));
        let router = DistributedWriteRouter::new(assignment.clone(), registry.clone());
        let mut model: BTreeMap<String, MNode> = BTreeMap::new();
        // shard -> (node returned last time, epoch of rebalances at that time)
        let mut last: BTreeMap<String, (String, u32)> = BTreeMap::new();
        let mut rebalances = 0u32;
        let mut out = Outcome::pass();
        out.class(format!("strategy:{:?}", strategy));
        let mut routes = 0u64;
        for (step, op) in case.ops.iter().enumerate() {
            match op {
                Op::HealthCheck => {
                    out.class("failure-detector-pass");
                    match &health {
                        None => {
                            let r = registry.clone();
                            health = Some(tokio::spawn(async move { r.run_health_checks().await }));
                            // the interval's first tick is immediate
                            tokio::time::sleep(std::time::Duration::from_millis(1)).await;
                        }
                        Some(_) => tokio::time::sleep(std::time::Duration::from_millis(5001)).await,
                    }
                    for m in model.values_mut() {
                        if m.silent_s > TIMEOUT_S {
                            if m.status == 0 || m.status == 1 {
                                m.status = 2;
                                out.class("node-failed-by-heartbeat-loss");
                            }
                        } else if m.silent_s > TIMEOUT_S / 2 && m.status == 0 {
                            m.status = 1;
                            out.class("node-suspected-by-heartbeat-loss");
                        }
                    }
                }
                Op::Register { node, ty, status, load, silent } => {
                    let id = node_id(*node);
                    let mut info = NodeInfo::new(
                        id.clone(),
                        format!("127.0.0.1:{}", 9000 + (*node % NODES) as u16).parse().unwrap(),
                        match ty % 3 {
                            0 => NodeType::Ingester,
                            1 => NodeType::Query,
                            _ => NodeType::Combined,
                        },
                    );
                    info.status = match status % 4 {
                        0 => NodeStatus::Healthy,
                        1 => NodeStatus::Suspected,
                        2 => NodeStatus::Failed,
                        _ => NodeStatus::Draining,
                    };
                    info.load_percent = *load % 101;
                    let mut silent_s = SILENT_S[*silent as usize % SILENT_S.len()];
                    match std::time::Instant::now().checked_sub(std::time::Duration::from_secs(silent_s)) {
                        Some(t) => info.last_heartbeat = t,
                        None => silent_s = 0, // the machine has not been up that long
                    }
                    registry.register_node(info).await;
                    model.insert(id, MNode { ty: ty % 3, status: status % 4, load: *load % 101, silent_s });
                }
                Op::Heartbeat(n) => {
                    let id = node_id(*n);
                    registry.heartbeat(&id).await;
                    if let Some(m) = model.get_mut(&id) {
                        m.silent_s = 0;
                        if m.status == 1 {
                            m.status = 0;
                        }
                    }
                }
                Op::Drain(n) => {
                    let id = node_id(*n);
                    registry.drain_node(&id).await;
                    if let Some(m) = model.get_mut(&id) {
                        m.status = 3;
                    }
                }
                Op::SetLoad(n, l) => {
                    let id = node_id(*n);
                    registry.update_load(&id, *l % 101).await;
                    if let Some(m) = model.get_mut(&id) {
                        m.load = *l % 101;
                    }
                }
                Op::Remove(n) => {
                    let id = node_id(*n);
                    registry.remove_node(&id).await;
                    model.remove(&id);
                }
                Op::Rebalance => {
                    let r = PollBudget::new(assignment.rebalance(), POLL_BUDGET).await;
                    if r.is_none() {
                        out.set_fail("rebalance-hang", format!("step {}: rebalance did not finish within {} polls", step, POLL_BUDGET));
                        return out;
                    }
                    rebalances += 1;
                }
                Op::Route(_) | Op::Sweep => {
                  let targets: Vec<u8> = match op {
                      Op::Route(s) => vec![s % SHARDS],
                      _ => {
                          out.class("sweep-of-the-key-space");
                          (0..SHARDS).collect()
                      }
                  };
                  for s in targets {
                    let shard = format!("shard-{}", s);
                    routes += 1;
                    // non-triviality: previously returned node is no longer eligible and no rebalance since
                    if let Some((prev, epoch)) = last.get(&shard) {
                        let prev_ok = model.get(prev).map(|m| m.eligible()).unwrap_or(false);
                        if !prev_ok && *epoch == rebalances {
                            out.nontrivial = true;
                            out.class("assigned-node-became-ineligible");
                        }
                    }
                    let res = PollBudget::new(router.route_write(&shard), POLL_BUDGET).await;
                    let res = match res {
                        None => {
                            out.class("route-hang");
                            let elig = model.values().filter(|m| m.eligible()).count();
                            out.set_fail(
                                format!("route-never-returns:{:?}", strategy),
                                format!("step {}: route_write({}) did not return within {} polls ({} eligible nodes registered)", step, shard, POLL_BUDGET, elig),
                            );
                            return out;
                        }
                        Some(r) => r,
                    };
                    match res {
                        Ok(Some(n)) => {
                            out.class("route-ok");
                            match model.get(&n.id) {
                                None => {
                                    out.set_fail("routed-to-unregistered", format!("step {}: {} routed to unregistered node {}", step, shard, n.id));
                                    return out;
                                }
                                Some(m) if !m.eligible() => {
                                    out.set_fail(
                                        "routed-to-ineligible",
                                        format!("step {}: {} routed to node {} which is not eligible (type {}, status {}, load {})", step, shard, n.id, m.ty, m.status, m.load),
                                    );
                                    return out;
                                }
                                _ => {}
                            }
                            let asg = assignment.get_all_assignments().await;
                            if asg.get(&shard) != Some(&n.id) {
                                out.set_fail("assignment-map-disagrees", format!("step {}: route returned {} but assignments[{}] = {:?}", step, n.id, shard, asg.get(&shard)));
                                return out;
                            }
                            if let Some((prev, epoch)) = last.get(&shard) {
                                let prev_ok = model.get(prev).map(|m| m.eligible()).unwrap_or(false);
                                if *prev != n.id && prev_ok && *epoch == rebalances {
                                    out.set_fail(
                                        "shard-moved-without-cause",
                                        format!("step {}: {} moved {} -> {} although {} is still eligible and no rebalance ran", step, shard, prev, n.id, prev),
                                    );
                                    return out;
                                }
                            }
                            last.insert(shard, (n.id.clone(), rebalances));
                        }
                        Ok(None) => {
                            out.class("route-none");
                        }
                        Err(_) => {
                            out.class("route-err");
                        }
                    }
                  }
                }
            }
        }
        out.count("routes", routes);
        if let Some(h) = health {
            h.abort();
        }
        out
    })
}

fn op() -> impl Strategy<Value = Op> {
    let n = 0u8..NODES;
    prop_oneof![
        4 => (n.clone(), prop_oneof![3 => Just(0u8), 1 => Just(1u8), 2 => Just(2u8)], prop_oneof![6 => Just(0u8), 1 => 1u8..4], prop_oneof![4 => 0u8..90, 1 => 93u8..97, 1 => Just(100u8)])
            .prop_map(|(node, ty, status, load)| Op::Register { node, ty, status, load, silent: 0 }),
        2 => (n.clone(), prop_oneof![3 => Just(0u8), 1 => Just(2u8)], prop_oneof![4 => 0u8..90, 1 => 93u8..97], 1u8..3).prop_map(|(node, ty, load, silent)| Op::Register { node, ty, status: 0, load, silent }),
        2 => Just(Op::HealthCheck),
        1 => n.clone().prop_map(Op::Heartbeat),
        2 => n.clone().prop_map(Op::Drain),
        2 => (n.clone(), prop_oneof![2 => 0u8..90, 3 => 93u8..97, 1 => Just(100u8)]).prop_map(|(n, l)| Op::SetLoad(n, l)),
        1 => n.prop_map(Op::Remove),
        1 => Just(Op::Rebalance),
        6 => (0u8..6).prop_map(Op::Route),
        2 => (0u8..SHARDS).prop_map(Op::Route),
        1 => Just(Op::Sweep),
    ]
}

fn strategy(t: Tier) -> BoxedStrategy<Case> {
    let max = t.pick(30usize, 60usize);
    (0u8..3, prop::collection::vec(op(), 1..max)).prop_map(|(strategy, ops)| Case { strategy, ops }).boxed()
}

pub fn def() -> PropDef {
    PropDef {
        id: "C19",
        level: "exploration",
        rule: "stateful: histories of <=30 (thorough 60) ops from {register(node<5, type, status, load incl. 94/95), heartbeat, drain, set-load, remove, rebalance, register a node that has been silent for 80 / 200 s (registry timeout 120 s), one pass of the registry's own failure detector (run_health_checks: silent nodes become suspected / failed), route(shard<6, or any of 250 shard ids), sweep = route each of the 250 shard ids once (every position on the ring, incl. the wrap-around segment)} for each of the three assignment strategies, against a reference model of the registry; every route_write runs under a 64-poll budget. Non-trivial = a shard was routed again after its assigned node had become ineligible/absent with no rebalance in between. Distinct = distinct canonical JSON of the history.",
        assumptions: &[
            "tokio's cooperative budget makes a never-blocking async loop yield, so a poll-count budget detects non-termination deterministically",
            "single-threaded histories: no concurrent membership change during a route",
        ],
        subs: || vec![Box::new(Sub::<Case> { name: "history", cases: |t| t.scale(200_000, 8), strategy, exec })],
    }
}
