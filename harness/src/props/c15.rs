//! C15 — dual-write routes each row to exactly one new shard; split-time reads stay exact.

use crate::core::*;
use crate::qenv::{query_node, reference, result_rows, storage_config, Env};
use crate::rows::*;
use crate::util::*;
use arrow_array::{Array, ArrayRef, DictionaryArray, Float64Array, Int64Array, LargeStringArray, RecordBatch, StringArray, StringViewArray, TimestampNanosecondArray};
use arrow_schema::{DataType, Field, Schema, SchemaRef, TimeUnit};
use async_trait::async_trait;
use cardinalsin::ingester::{ChunkMetadata, Ingester, IngesterConfig, WalConfig};
use cardinalsin::metadata::{
    ColumnPredicate, CompactionJob, CompactionLease, CompactionLeases, CompactionStatus, LocalMetadataClient, MetadataClient, ObjectStoreMetadataClient, ObjectStoreMetadataConfig, SplitState, TimeIndexEntry, TimeRange,
};
use cardinalsin::schema::MetricSchema;
use cardinalsin::sharding::{ShardMetadata, SplitPhase};
use cardinalsin::Result as CsResult;
use proptest::prelude::*;
use serde::{Deserialize, Serialize};
use std::collections::BTreeMap;
use std::sync::Arc;

const NEW_A: &str = "newshard-aaaa";
const NEW_B: &str = "newshard-bbbb";

/// Metadata wrapper that reports a split in the given phase for whatever shard
/// the ingester computes (everything else is delegated).
pub struct SplitMeta {
    pub inner: Arc<dyn MetadataClient>,
    pub phase: SplitPhase,
    pub split_point: i64,
    /// Some(old shard id): nothing is made up - the split state the real catalog holds for that
    /// shard is reported for whatever shard id the ingester computes
    pub live: Option<String>,
}

#[async_trait]
impl MetadataClient for SplitMeta {
    async fn register_chunk(&self, path: &str, metadata: &ChunkMetadata) -> CsResult<()> {
        self.inner.register_chunk(path, metadata).await
    }
    async fn get_chunks(&self, range: TimeRange) -> CsResult<Vec<TimeIndexEntry>> {
        self.inner.get_chunks(range).await
    }
    async fn get_chunks_with_predicates(&self, range: TimeRange, predicates: &[ColumnPredicate]) -> CsResult<Vec<TimeIndexEntry>> {
        self.inner.get_chunks_with_predicates(range, predicates).await
    }
    async fn get_chunk(&self, path: &str) -> CsResult<Option<ChunkMetadata>> {
        self.inner.get_chunk(path).await
    }
    async fn delete_chunk(&self, path: &str) -> CsResult<()> {
        self.inner.delete_chunk(path).await
    }
    async fn list_chunks(&self) -> CsResult<Vec<TimeIndexEntry>> {
        self.inner.list_chunks().await
    }
    async fn get_l0_candidates(&self, min_count: usize) -> CsResult<Vec<Vec<String>>> {
        self.inner.get_l0_candidates(min_count).await
    }
    async fn get_level_candidates(&self, level: usize, target_size: usize) -> CsResult<Vec<Vec<String>>> {
        self.inner.get_level_candidates(level, target_size).await
    }
    async fn create_compaction_job(&self, job: CompactionJob) -> CsResult<()> {
        self.inner.create_compaction_job(job).await
    }
    async fn complete_compaction(&self, source_chunks: &[String], target_chunk: &str) -> CsResult<()> {
        self.inner.complete_compaction(source_chunks, target_chunk).await
    }
    async fn update_compaction_status(&self, job_id: &str, status: CompactionStatus) -> CsResult<()> {
        self.inner.update_compaction_status(job_id, status).await
    }
    async fn get_pending_compaction_jobs(&self) -> CsResult<Vec<CompactionJob>> {
        self.inner.get_pending_compaction_jobs().await
    }
    async fn start_split(&self, old_shard: &str, new_shards: Vec<String>, split_point: Vec<u8>) -> CsResult<()> {
        self.inner.start_split(old_shard, new_shards, split_point).await
    }
    async fn get_split_state(&self, shard_id: &str) -> CsResult<Option<SplitState>> {
        if let Some(old) = &self.live {
            return self.inner.get_split_state(old).await;
        }
        Ok(Some(SplitState {
            phase: self.phase,
            old_shard: shard_id.to_string(),
            new_shards: vec![NEW_A.to_string(), NEW_B.to_string()],
            split_point: self.split_point.to_be_bytes().to_vec(),
            split_timestamp: 0,
            backfill_progress: 0.0,
        }))
    }
    async fn update_split_progress(&self, shard_id: &str, progress: f64, phase: SplitPhase) -> CsResult<()> {
        self.inner.update_split_progress(shard_id, progress, phase).await
    }
    async fn complete_split(&self, old_shard: &str) -> CsResult<()> {
        self.inner.complete_split(old_shard).await
    }
    async fn get_chunks_for_shard(&self, shard_id: &str) -> CsResult<Vec<TimeIndexEntry>> {
        self.inner.get_chunks_for_shard(shard_id).await
    }
    async fn get_shard_metadata(&self, shard_id: &str) -> CsResult<Option<ShardMetadata>> {
        self.inner.get_shard_metadata(shard_id).await
    }
    async fn update_shard_metadata(&self, shard_id: &str, metadata: &ShardMetadata, expected_generation: u64) -> CsResult<()> {
        self.inner.update_shard_metadata(shard_id, metadata, expected_generation).await
    }
    async fn acquire_lease(&self, node_id: &str, chunks: &[String], level: u32) -> CsResult<CompactionLease> {
        self.inner.acquire_lease(node_id, chunks, level).await
    }
    async fn load_leases(&self) -> CsResult<CompactionLeases> {
        self.inner.load_leases().await
    }
    async fn has_active_split(&self) -> CsResult<bool> {
        if self.live.is_some() {
            return self.inner.has_active_split().await;
        }
        Ok(matches!(self.phase, SplitPhase::DualWrite | SplitPhase::Backfill))
    }
    async fn active_split_new_shards(&self) -> CsResult<Vec<String>> {
        if self.live.is_some() {
            return self.inner.active_split_new_shards().await;
        }
        Ok(if matches!(self.phase, SplitPhase::DualWrite | SplitPhase::Backfill) { vec![NEW_A.to_string(), NEW_B.to_string()] } else { vec![] })
    }
}

#[derive(Clone, Debug, Serialize, Deserialize)]
pub struct SRow {
    /// timestamp relative to the split point: -2..=2 (0 = exactly at the split point)
    pub rel: i8,
    pub metric: u8,
    pub host: Option<u8>,
    pub value: i8,
}

#[derive(Clone, Debug, Serialize, Deserialize)]
pub struct SBatch {
    pub rows: Vec<SRow>,
    /// 0 = Int64 timestamps, 1 = Timestamp(ns, UTC)
    pub ts_type: u8,
}

#[derive(Clone, Debug, Serialize, Deserialize)]
pub struct RouteCase {
    pub phase: u8,
    pub backend: u8,
    pub flush_rows: u8,
    pub batches: Vec<SBatch>,
    /// where the split point lies: 0 = ten minutes ago, 1 = exactly at the epoch, 2 = 7 s after
    /// it (rows on both sides of zero: the sign of a row's timestamp differs from the split point's)
    #[serde(default)]
    pub sp_sel: u8,
}

const HOSTS: [&str; 3] = ["a", "b", "c"];
const METRICS: [&str; 2] = ["cpu", "mem"];

fn sp_of(sel: u8) -> i64 {
    match sel % 3 {
        0 => sp_now(),
        1 => 0,
        _ => 7_000_000_000,
    }
}

fn sp_now() -> i64 {
    // split point: 10 minutes ago, on a 5-minute boundary
    let now = chrono::Utc::now().timestamp_nanos_opt().unwrap();
    let five = 300_000_000_000i64;
    (now - 2 * five) / five * five
}

fn sbatch(b: &SBatch, sp: i64, rid0: i64) -> RecordBatch {
    let ts: Vec<i64> = b.rows.iter().map(|r| sp + (r.rel as i64).clamp(-2, 2) * 7_000_000_000).collect();
    let schema: SchemaRef = Arc::new(Schema::new(vec![
        if b.ts_type % 2 == 0 { Field::new("timestamp", DataType::Int64, false) } else { Field::new("timestamp", DataType::Timestamp(TimeUnit::Nanosecond, Some("UTC".into())), false) },
        Field::new("metric_name", DataType::Utf8, false),
        Field::new("host", DataType::Utf8, true),
        Field::new("value_f64", DataType::Float64, true),
        Field::new("rid", DataType::Int64, false),
    ]));
    let cols: Vec<ArrayRef> = vec![
        if b.ts_type % 2 == 0 { Arc::new(Int64Array::from(ts)) as ArrayRef } else { Arc::new(TimestampNanosecondArray::from(ts).with_timezone("UTC")) as ArrayRef },
        Arc::new(StringArray::from(b.rows.iter().map(|r| METRICS[r.metric as usize % 2]).collect::<Vec<_>>())),
        Arc::new(StringArray::from(b.rows.iter().map(|r| r.host.map(|h| HOSTS[h as usize % 3])).collect::<Vec<_>>())),
        Arc::new(Float64Array::from(b.rows.iter().map(|r| Some(r.value as f64 / 4.0)).collect::<Vec<_>>())),
        Arc::new(Int64Array::from((0..b.rows.len() as i64).map(|k| rid0 + k).collect::<Vec<_>>())),
    ];
    RecordBatch::try_new(schema, cols).unwrap()
}

struct Ingested {
    store: Arc<dyn object_store::ObjectStore>,
    inner: Arc<dyn MetadataClient>,
    accepted: Vec<RecordBatch>,
    rejected_ts_type: u32,
    sp: i64,
}

async fn ingest_split(phase: u8, backend: u8, flush_rows: u8, batches: &[SBatch], sp_sel: u8) -> Result<Ingested, (String, String)> {
    let store: Arc<dyn object_store::ObjectStore> = Arc::new(object_store::memory::InMemory::new());
    let inner: Arc<dyn MetadataClient> = if backend % 2 == 0 { Arc::new(LocalMetadataClient::new()) } else { Arc::new(ObjectStoreMetadataClient::new(store.clone(), ObjectStoreMetadataConfig::default())) };
    let sp = sp_of(sp_sel);
    let md = Arc::new(SplitMeta { inner: inner.clone(), phase: if phase % 2 == 0 { SplitPhase::DualWrite } else { SplitPhase::Backfill }, split_point: sp, live: None });
    let cfg = IngesterConfig { flush_row_count: 1 + (flush_rows % 8) as usize, flush_interval: std::time::Duration::from_millis(50), wal: WalConfig { enabled: false, ..Default::default() }, ..Default::default() };
    let ing = Arc::new(Ingester::new(cfg, store.clone(), md, storage_config(), MetricSchema::default_metrics()));
    let mut accepted = Vec::new();
    let mut rejected_ts_type = 0;
    let mut rid = 0i64;
    for b in batches {
        let rb = sbatch(b, sp, rid);
        rid += b.rows.len() as i64;
        match ing.write(rb.clone()).await {
            Ok(()) => accepted.push(rb),
            Err(e) => {
                if b.ts_type % 2 == 1 {
                    rejected_ts_type += 1;
                } else {
                    return Err(("dual-write-failed".into(), format!("write of an Int64-timestamp batch failed during the split: {:?}", e)));
                }
            }
        }
    }
    // final flush of the old-shard buffer
    let ing2 = ing.clone();
    let t = tokio::spawn(async move { ing2.run_flush_timer().await });
    ing.shutdown_token().cancel();
    let _ = t.await;
    Ok(Ingested { store, inner, accepted, rejected_ts_type, sp })
}

pub fn exec_route(case: &RouteCase) -> Outcome {
    let rt = rt_plain();
    rt.block_on(async {
        let mut out = Outcome::pass();
        let ig = match ingest_split(case.phase, case.backend, case.flush_rows, &case.batches, case.sp_sel).await {
            Ok(i) => i,
            Err((s, m)) => {
                out.set_fail(s, m);
                return out;
            }
        };
        if ig.rejected_ts_type > 0 {
            out.class("timestamp-typed-batch-rejected-during-split");
        }
        let chunks = ig.inner.list_chunks().await.unwrap_or_default();
        let mut a_rows = Vec::new();
        let mut b_rows = Vec::new();
        let mut old_rows = Vec::new();
        for c in &chunks {
            let data = ig.store.get(&c.chunk_path.clone().into()).await.unwrap().bytes().await.unwrap();
            let bs = decode_parquet(data).unwrap_or_default();
            let rows: Vec<(i64, String)> = bs.iter().flat_map(|b| {
                let ts = ts_bounds(&[b.clone()]);
                let _ = ts;
                let rr = rows_of(b);
                let tsv: Vec<i64> = (0..b.num_rows()).map(|i| ts_bounds(&[b.slice(i, 1)]).map(|x| x.0).unwrap_or(0)).collect();
                tsv.into_iter().zip(rr).collect::<Vec<_>>()
            }).collect();
            if c.chunk_path.contains(&format!("shard={}", NEW_A)) {
                a_rows.extend(rows);
            } else if c.chunk_path.contains(&format!("shard={}", NEW_B)) {
                b_rows.extend(rows);
            } else {
                old_rows.extend(rows);
            }
        }
        // expectation from accepted batches
        let mut want_a = Vec::new();
        let mut want_b = Vec::new();
        let mut want_all = Vec::new();
        for b in &ig.accepted {
            let rr = rows_of(b);
            for (i, r) in rr.into_iter().enumerate() {
                let ts = ts_bounds(&[b.slice(i, 1)]).map(|x| x.0).unwrap_or(0);
                want_all.push(r.clone());
                if ts < ig.sp {
                    want_a.push(r);
                } else {
                    want_b.push(r);
                }
            }
        }
        let sortv = |mut v: Vec<String>| {
            v.sort();
            v
        };
        let got_a = sortv(a_rows.iter().map(|x| x.1.clone()).collect());
        let got_b = sortv(b_rows.iter().map(|x| x.1.clone()).collect());
        let got_old = sortv(old_rows.iter().map(|x| x.1.clone()).collect());
        let has_at = case.batches.iter().any(|b| b.ts_type % 2 == 0 && b.rows.iter().any(|r| r.rel == 0));
        let both_sides = !want_a.is_empty() && !want_b.is_empty();
        out.nontrivial = both_sides || has_at;
        if has_at {
            out.class("row-exactly-at-split-point");
        }
        if both_sides {
            out.class("rows-on-both-sides");
        }
        if let Some((ts, r)) = a_rows.iter().find(|(ts, _)| *ts >= ig.sp) {
            out.set_fail("row-at-or-above-split-point-in-lower-shard", format!("lower new shard holds {} with timestamp {} >= split point {}", r, ts, ig.sp));
            return out;
        }
        if let Some((ts, r)) = b_rows.iter().find(|(ts, _)| *ts < ig.sp) {
            out.set_fail("row-below-split-point-in-upper-shard", format!("upper new shard holds {} with timestamp {} < split point {}", r, ts, ig.sp));
            return out;
        }
        if got_a != sortv(want_a.clone()) || got_b != sortv(want_b.clone()) {
            let missing = want_a.iter().chain(want_b.iter()).filter(|r| !got_a.contains(r) && !got_b.contains(r)).count();
            out.set_fail(if missing > 0 { "accepted-row-in-no-new-shard" } else { "row-copied-more-than-once-to-new-shards" }, format!("new shards hold {} + {} rows, expected {} + {}", got_a.len(), got_b.len(), want_a.len(), want_b.len()));
            return out;
        }
        // rows of rejected (Err) writes are unconstrained: the old buffer must hold at least all accepted rows
        let want_all = sortv(want_all);
        let mut pool = got_old.clone();
        for r in &want_all {
            match pool.iter().position(|x| x == r) {
                Some(i) => {
                    pool.remove(i);
                }
                None => {
                    out.set_fail("accepted-row-missing-from-old-shard", format!("{} not in an old-shard chunk", r));
                    return out;
                }
            }
        }
        out
    })
}

// ---- dedup direct ----------------------------------------------------------------

#[derive(Clone, Debug, Serialize, Deserialize)]
pub struct DedupCase {
    /// originals (may contain genuinely identical rows)
    pub rows: Vec<SRow>,
    /// which originals also arrive as a double-written copy
    pub copied: Vec<bool>,
    /// metric column representation: 0 Utf8, 1 LargeUtf8, 2 Utf8View, 3 Dictionary
    pub repr: u8,
    pub ts_type: u8,
    /// how the rows are cut into result batches
    pub cut: u8,
}

fn dedup_batch(rows: &[&SRow], repr: u8, ts_type: u8) -> RecordBatch {
    let ts: Vec<i64> = rows.iter().map(|r| 1_000_000 + (r.rel as i64).clamp(-2, 2)).collect();
    let metrics: Vec<&str> = rows.iter().map(|r| METRICS[r.metric as usize % 2]).collect();
    let (mfield, mcol): (Field, ArrayRef) = match repr % 4 {
        0 => (Field::new("metric_name", DataType::Utf8, false), Arc::new(StringArray::from(metrics))),
        1 => (Field::new("metric_name", DataType::LargeUtf8, false), Arc::new(LargeStringArray::from(metrics))),
        2 => (Field::new("metric_name", DataType::Utf8View, false), Arc::new(StringViewArray::from(metrics))),
        _ => {
            let d: DictionaryArray<arrow_array::types::Int32Type> = metrics.into_iter().collect();
            (Field::new("metric_name", d.data_type().clone(), false), Arc::new(d))
        }
    };
    let schema = Arc::new(Schema::new(vec![
        if ts_type % 2 == 0 { Field::new("timestamp", DataType::Int64, false) } else { Field::new("timestamp", DataType::Timestamp(TimeUnit::Nanosecond, Some("UTC".into())), false) },
        mfield,
        Field::new("host", DataType::Utf8, true),
        Field::new("value_f64", DataType::Float64, true),
    ]));
    RecordBatch::try_new(
        schema,
        vec![
            if ts_type % 2 == 0 { Arc::new(Int64Array::from(ts)) as ArrayRef } else { Arc::new(TimestampNanosecondArray::from(ts).with_timezone("UTC")) as ArrayRef },
            mcol,
            Arc::new(StringArray::from(rows.iter().map(|r| r.host.map(|h| HOSTS[h as usize % 3])).collect::<Vec<_>>())),
            Arc::new(Float64Array::from(rows.iter().map(|r| Some(r.value as f64 / 4.0)).collect::<Vec<_>>())),
        ],
    )
    .unwrap()
}

/// Direct check of the (now unused) row-level de-duplication routine; kept for reference,
/// not registered: the query path no longer calls it.
#[allow(dead_code)]
pub fn exec_dedup(case: &DedupCase) -> Outcome {
    let mut out = Outcome::pass();
    let originals: Vec<&SRow> = case.rows.iter().collect();
    let copies: Vec<&SRow> = case.rows.iter().zip(case.copied.iter().chain(std::iter::repeat(&false))).filter(|(_, c)| **c).map(|(r, _)| r).collect();
    let mut all: Vec<&SRow> = originals.clone();
    all.extend(copies.iter());
    // cut into 1-3 batches
    let n = all.len();
    let cuts = match case.cut % 3 {
        0 => vec![0, n],
        1 => vec![0, originals.len(), n],
        _ => vec![0, n / 2, n],
    };
    let mut batches = Vec::new();
    for w in cuts.windows(2) {
        if w[1] > w[0] {
            batches.push(dedup_batch(&all[w[0]..w[1]], case.repr, case.ts_type));
        }
    }
    let mut ingested: BTreeMap<String, usize> = BTreeMap::new();
    for r in rows_of_all(&[dedup_batch(&originals, case.repr, case.ts_type)]) {
        *ingested.entry(r).or_insert(0) += 1;
    }
    let got = match cardinalsin::query::verif_dedup_batches(batches) {
        Ok(g) => g,
        Err(e) => {
            out.set_fail("dedup-error", format!("{:?}", e));
            return out;
        }
    };
    let mut got_count: BTreeMap<String, usize> = BTreeMap::new();
    for r in rows_of_all(&got) {
        *got_count.entry(r).or_insert(0) += 1;
    }
    let series_share_key = {
        let mut keys: BTreeMap<(i8, u8), std::collections::BTreeSet<String>> = BTreeMap::new();
        for (r, s) in case.rows.iter().zip(rows_of_all(&[dedup_batch(&originals, case.repr, case.ts_type)])) {
            let _ = s;
            keys.entry((r.rel.clamp(-2, 2), r.metric % 2)).or_default().insert(format!("{:?}{}", r.host.map(|h| h % 3), r.value));
        }
        keys.values().any(|v| v.len() > 1)
    };
    out.nontrivial = series_share_key || !copies.is_empty();
    if series_share_key {
        out.class("distinct-series-share-timestamp-and-metric");
    }
    if !copies.is_empty() {
        out.class("double-written-copies-present");
    }
    out.class(format!("metric-column:{}", ["Utf8", "LargeUtf8", "Utf8View", "Dictionary"][case.repr as usize % 4]));
    let repr_tag = ["utf8", "largeutf8", "utf8view", "dictionary"][case.repr as usize % 4];
    for (row, m) in &ingested {
        let g = got_count.get(row).cloned().unwrap_or(0);
        if g < 1 {
            out.set_fail(format!("dedup:distinct-row-dropped:{}", repr_tag), format!("ingested row {} (x{}) is missing from the de-duplicated result", row, m));
            return out;
        }
        if g > *m {
            out.set_fail(format!("dedup:copy-not-suppressed:{}", repr_tag), format!("row {} was ingested {} time(s) but appears {} times after de-duplication", row, m, g));
            return out;
        }
    }
    for row in got_count.keys() {
        if !ingested.contains_key(row) {
            out.set_fail("dedup:row-invented", row.clone());
            return out;
        }
    }
    out
}

// ---- end to end -------------------------------------------------------------------------

#[derive(Clone, Debug, Serialize, Deserialize)]
pub struct E2eCase {
    pub route: RouteCase,
    pub queries: Vec<u8>,
}

fn e2e_sql(q: u8, lo: i64, hi: i64) -> String {
    let w = format!("timestamp >= {} AND timestamp <= {}", lo, hi);
    match q % 6 {
        0 => format!("SELECT * FROM metrics WHERE {}", w),
        1 => format!("SELECT count(*) AS n FROM metrics WHERE {}", w),
        2 => format!("SELECT metric_name, sum(value_f64) AS s, count(*) AS n FROM metrics WHERE {} GROUP BY metric_name", w),
        3 => format!("SELECT rid, host FROM metrics WHERE {} AND metric_name = 'cpu'", w),
        4 => format!("SELECT host, count(value_f64) AS n FROM metrics WHERE {} GROUP BY host", w),
        _ => format!("SELECT max(value_f64) AS m, min(value_f64) AS mi FROM metrics WHERE {}", w),
    }
}

pub fn exec_e2e(case: &E2eCase) -> Outcome {
    let rt = rt_plain();
    rt.block_on(async {
        let mut out = Outcome::pass();
        // Int64-timestamp batches only (Timestamp-typed ones are rejected during a split: routing sub-check)
        let batches: Vec<SBatch> = case.route.batches.iter().map(|b| SBatch { rows: b.rows.clone(), ts_type: 0 }).collect();
        let ig = match ingest_split(case.route.phase, case.route.backend, case.route.flush_rows, &batches, case.route.sp_sel).await {
            Ok(i) => i,
            Err((s, m)) => {
                out.set_fail(s, m);
                return out;
            }
        };
        if ig.accepted.is_empty() {
            return out;
        }
        let schema = ig.accepted[0].schema();
        // the query node sees the split through the real back-end: record the split state there
        let phase = if case.route.phase % 2 == 0 { SplitPhase::DualWrite } else { SplitPhase::Backfill };
        if let Err(e) = ig.inner.start_split("shard-under-split", vec![NEW_A.to_string(), NEW_B.to_string()], ig.sp.to_be_bytes().to_vec()).await {
            out.set_fail("start-split-failed", format!("{:?}", e));
            return out;
        }
        if let Err(e) = ig.inner.update_split_progress("shard-under-split", 0.0, phase).await {
            out.set_fail("update-split-progress-failed", format!("{:?}", e));
            return out;
        }
        let md: Arc<dyn MetadataClient> = ig.inner.clone();
        let env = Env { store: ig.store.clone(), metadata: md, all: ig.accepted.clone(), schema: schema.clone() };
        let node = match query_node(&env, false).await {
            Ok(n) => n,
            Err(e) => {
                out.set_fail("query-node-failed", e);
                return out;
            }
        };
        let multi_series = {
            let mut keys: BTreeMap<(i8, u8), usize> = BTreeMap::new();
            for b in &batches {
                for r in &b.rows {
                    *keys.entry((r.rel.clamp(-2, 2), r.metric % 2)).or_insert(0) += 1;
                }
            }
            keys.values().any(|v| *v > 1)
        };
        out.nontrivial = true;
        if multi_series {
            out.class("several-rows-share-timestamp-and-metric");
        }
        let (lo, hi) = (ig.sp - 60_000_000_000, ig.sp + 60_000_000_000);
        for q in &case.queries {
            let sql = e2e_sql(*q, lo, hi);
            let want = reference(&sql, &env.all, schema.clone()).await;
            let got = node.query(&sql).await;
            let kind = if q % 6 == 0 || q % 6 == 3 { "rows" } else { "aggregate" };
            match (want, got) {
                (Ok(w), Ok(g)) => {
                    let (wr, gr) = (result_rows(&w), result_rows(&g));
                    if wr != gr {
                        let what = if gr.len() > wr.len() {
                            "copies-not-suppressed"
                        } else if gr.len() < wr.len() {
                            "distinct-rows-collapsed"
                        } else {
                            "values-differ"
                        };
                        out.set_fail(format!("e2e:{}:{}", kind, what), format!("{}\n expected {:?}\n got {:?}", sql, wr.iter().take(4).collect::<Vec<_>>(), gr.iter().take(4).collect::<Vec<_>>()));
                        return out;
                    }
                }
                (Err(_), Err(_)) => {}
                (Ok(_), Err(e)) => {
                    out.set_fail(format!("e2e:{}:error", kind), format!("{}: {:?}", sql, e));
                    return out;
                }
                (Err(e), Ok(_)) => {
                    out.set_fail("e2e:reference-error", format!("{}: {}", sql, e));
                    return out;
                }
            }
        }
        out
    })
}


// ---- lifecycle: stored history + real back-fill, queried in both phases ------------------

const OLD: &str = "shard-under-split";

#[derive(Clone, Debug, Serialize, Deserialize)]
pub struct LifeCase {
    pub backend: u8,
    pub flush_rows: u8,
    /// chunks the old shard holds before the split starts
    pub history: Vec<SBatch>,
    /// written through the ingester in the dual-write phase
    pub dual: Vec<SBatch>,
    /// written through the ingester in the back-fill phase (after the back-fill ran)
    pub late: Vec<SBatch>,
    pub queries: Vec<u8>,
    #[serde(default)]
    pub sp_sel: u8,
    /// the queries of every phase go to one query node that has been serving since before the
    /// split started (default: a fresh node per phase)
    #[serde(default)]
    pub long_lived: bool,
}

async fn ingest_live(store: &Arc<dyn object_store::ObjectStore>, inner: &Arc<dyn MetadataClient>, flush_rows: u8, sp: i64, batches: &[SBatch], rid: &mut i64, accepted: &mut Vec<RecordBatch>) -> Result<(), (String, String)> {
    let md = Arc::new(SplitMeta { inner: inner.clone(), phase: SplitPhase::DualWrite, split_point: sp, live: Some(OLD.to_string()) });
    let cfg = IngesterConfig { flush_row_count: 1 + (flush_rows % 8) as usize, flush_interval: std::time::Duration::from_millis(50), wal: WalConfig { enabled: false, ..Default::default() }, ..Default::default() };
    let ing = Arc::new(Ingester::new(cfg, store.clone(), md, storage_config(), MetricSchema::default_metrics()));
    for b in batches {
        let rb = sbatch(&SBatch { rows: b.rows.clone(), ts_type: 0 }, sp, *rid);
        *rid += b.rows.len() as i64;
        match ing.write(rb.clone()).await {
            Ok(()) => accepted.push(rb),
            Err(e) => return Err(("dual-write-failed".into(), format!("write of an Int64-timestamp batch failed during the split: {:?}", e))),
        }
    }
    let ing2 = ing.clone();
    let t = tokio::spawn(async move { ing2.run_flush_timer().await });
    ing.shutdown_token().cancel();
    let _ = t.await;
    Ok(())
}

async fn compare_queries(out: &mut Outcome, store: &Arc<dyn object_store::ObjectStore>, inner: &Arc<dyn MetadataClient>, all: &[RecordBatch], sp: i64, queries: &[u8], phase: &str, long_lived: Option<&cardinalsin::query::QueryNode>) -> bool {
    let schema = all[0].schema();
    let env = Env { store: store.clone(), metadata: inner.clone(), all: all.to_vec(), schema: schema.clone() };
    let fresh;
    let node = match long_lived {
        // a query node that has been serving since before the split started
        Some(n) => n,
        None => {
            fresh = match query_node(&env, false).await {
                Ok(n) => n,
                Err(e) => {
                    out.set_fail("query-node-failed", e);
                    return false;
                }
            };
            &fresh
        }
    };
    let (lo, hi) = (sp - 60_000_000_000, sp + 60_000_000_000);
    for q in queries {
        let sql = e2e_sql(*q, lo, hi);
        let want = reference(&sql, &env.all, schema.clone()).await;
        let got = node.query(&sql).await;
        let kind = if q % 6 == 0 || q % 6 == 3 { "rows" } else { "aggregate" };
        // the same statement as a streaming query: its historical phase is a query issued during the phase too
        {
            let chan = cardinalsin::ingester::BroadcastChannel::new(4);
            let ex = cardinalsin::query::StreamingQueryExecutor::new(node.engine.clone(), inner.clone(), chan.subscribe());
            let streamed = match ex.execute(&sql).await {
                Ok(mut rx) => {
                    drop(chan);
                    let mut bs = Vec::new();
                    let mut err = None;
                    while let Some(b) = rx.recv().await {
                        match b {
                            Ok(b) => bs.push(b),
                            Err(e) => err = Some(format!("{:?}", e)),
                        }
                    }
                    match err {
                        None => Ok(bs),
                        Some(e) => Err(e),
                    }
                }
                Err(e) => Err(format!("{:?}", e)),
            };
            if let (Ok(w), Ok(g)) = (&want, &streamed) {
                let (wr, gr) = (result_rows(w), result_rows(g));
                if wr != gr {
                    let what = if gr.len() > wr.len() { "copies-not-suppressed" } else if gr.len() < wr.len() { "rows-missing" } else { "values-differ" };
                    out.set_fail(format!("lifecycle:{}:{}:{}:streaming-historical", phase, kind, what), format!("{} phase, streaming query (historical phase): {}\n expected {:?}\n got {:?}", phase, sql, wr.iter().take(4).collect::<Vec<_>>(), gr.iter().take(4).collect::<Vec<_>>()));
                    return false;
                }
            }
            if let (Ok(_), Err(e)) = (&want, &streamed) {
                out.set_fail(format!("lifecycle:{}:{}:error:streaming-historical", phase, kind), format!("{}: {}", sql, e));
                return false;
            }
        }
        match (want, got) {
            (Ok(w), Ok(g)) => {
                let (wr, gr) = (result_rows(&w), result_rows(&g));
                if wr != gr {
                    let what = if gr.len() > wr.len() {
                        "copies-not-suppressed"
                    } else if gr.len() < wr.len() {
                        "rows-missing"
                    } else {
                        "values-differ"
                    };
                    out.set_fail(format!("lifecycle:{}:{}:{}", phase, kind, what), format!("{} phase: {}\n expected {:?}\n got {:?}", phase, sql, wr.iter().take(4).collect::<Vec<_>>(), gr.iter().take(4).collect::<Vec<_>>()));
                    return false;
                }
            }
            (Err(_), Err(_)) => {}
            (Ok(_), Err(e)) => {
                out.set_fail(format!("lifecycle:{}:{}:error", phase, kind), format!("{}: {:?}", sql, e));
                return false;
            }
            (Err(e), Ok(_)) => {
                out.set_fail("lifecycle:reference-error", format!("{}: {}", sql, e));
                return false;
            }
        }
    }
    true
}

pub fn exec_lifecycle(case: &LifeCase) -> Outcome {
    let rt = rt_plain();
    rt.block_on(async {
        let mut out = Outcome::pass();
        let store: Arc<dyn object_store::ObjectStore> = Arc::new(object_store::memory::InMemory::new());
        let inner: Arc<dyn MetadataClient> = if case.backend % 2 == 0 { Arc::new(LocalMetadataClient::new()) } else { Arc::new(ObjectStoreMetadataClient::new(store.clone(), ObjectStoreMetadataConfig::default())) };
        let sp = sp_of(case.sp_sel);
        if case.sp_sel % 3 != 0 {
            out.class("split-point-at-the-epoch:rows-of-either-sign");
        }
        let mut rid = 0i64;
        let mut all: Vec<RecordBatch> = Vec::new();
        // the old shard's stored history: chunks whose path carries the shard id (that is how
        // get_chunks_for_shard attributes chunks to shards)
        let writer = cardinalsin::ingester::ParquetWriter::new();
        for (k, b) in case.history.iter().enumerate() {
            let rb = sbatch(&SBatch { rows: b.rows.clone(), ts_type: 0 }, sp, rid);
            rid += b.rows.len() as i64;
            let bytes = writer.write_batch(&rb).expect("parquet");
            let path = format!("{}/chunk_{:02}.parquet", OLD, k);
            store.put(&path.as_str().into(), bytes.clone().into()).await.expect("put");
            let (mn, mx) = ts_bounds(&[rb.clone()]).unwrap();
            let meta = ChunkMetadata { path: path.clone(), min_timestamp: mn, max_timestamp: mx, row_count: rb.num_rows() as u64, size_bytes: bytes.len() as u64 };
            if let Err(e) = inner.register_chunk(&path, &meta).await {
                out.set_fail("setup-failed", format!("{:?}", e));
                return out;
            }
            all.push(rb);
        }
        let served_since_before = if case.long_lived {
            out.class("long-lived-query-node");
            let env = Env { store: store.clone(), metadata: inner.clone(), all: all.clone(), schema: all[0].schema() };
            match query_node(&env, false).await {
                Ok(n) => Some(n),
                Err(e) => {
                    out.set_fail("query-node-failed", e);
                    return out;
                }
            }
        } else {
            None
        };
        let ll = served_since_before.as_ref();
        if !compare_queries(&mut out, &store, &inner, &all, sp, &case.queries, "before-split", ll).await {
            return out;
        }
        // ---- dual-write phase ----
        if let Err(e) = inner.start_split(OLD, vec![NEW_A.to_string(), NEW_B.to_string()], sp.to_be_bytes().to_vec()).await {
            out.set_fail("start-split-failed", format!("{:?}", e));
            return out;
        }
        if let Err(e) = inner.update_split_progress(OLD, 0.0, SplitPhase::DualWrite).await {
            out.set_fail("update-split-progress-failed", format!("{:?}", e));
            return out;
        }
        if let Err((s, m)) = ingest_live(&store, &inner, case.flush_rows, sp, &case.dual, &mut rid, &mut all).await {
            out.set_fail(s, m);
            return out;
        }
        if !compare_queries(&mut out, &store, &inner, &all, sp, &case.queries, "dual-write", ll).await {
            return out;
        }
        // ---- back-fill phase: the real splitter copies the old shard's chunks ----
        let splitter = cardinalsin::sharding::ShardSplitter::new(inner.clone(), store.clone());
        if let Err(e) = splitter.run_backfill(OLD, &[NEW_A.to_string(), NEW_B.to_string()], &sp.to_be_bytes()).await {
            out.set_fail("backfill-failed-without-fault", format!("{:?}", e));
            return out;
        }
        let copies = inner.list_chunks().await.unwrap_or_default().iter().filter(|c| c.chunk_path.contains("backfill")).count();
        if copies > 0 {
            out.class("back-fill-copies-present");
        }
        match inner.get_split_state(OLD).await {
            Ok(Some(st)) if st.phase == SplitPhase::Backfill => {}
            other => {
                out.set_fail("lifecycle:phase-not-backfill-after-run-backfill", format!("{:?}", other.map(|o| o.map(|s| s.phase))));
                return out;
            }
        }
        if !compare_queries(&mut out, &store, &inner, &all, sp, &case.queries, "back-fill", ll).await {
            return out;
        }
        if let Err((s, m)) = ingest_live(&store, &inner, case.flush_rows, sp, &case.late, &mut rid, &mut all).await {
            out.set_fail(s, m);
            return out;
        }
        if !compare_queries(&mut out, &store, &inner, &all, sp, &case.queries, "back-fill+writes", ll).await {
            return out;
        }
        out.nontrivial = copies > 0 && !case.dual.is_empty();
        out
    })
}

fn srow() -> impl Strategy<Value = SRow> {
    (prop_oneof![2 => Just(0i8), 3 => -2i8..=2], 0u8..2, prop::option::weighted(0.8, 0u8..3), -8i8..8).prop_map(|(rel, metric, host, value)| SRow { rel, metric, host, value })
}

fn route_case(ts_types: u8) -> impl Strategy<Value = RouteCase> {
    (0u8..2, 0u8..2, 0u8..8, prop::collection::vec((prop::collection::vec(srow(), 1..6), 0u8..ts_types).prop_map(|(rows, ts_type)| SBatch { rows, ts_type }), 1..5)).prop_map(|(phase, backend, flush_rows, batches)| RouteCase { phase, backend, flush_rows, batches, sp_sel: 0 })
}

pub fn def() -> PropDef {
    PropDef {
        id: "C15",
        level: "exploration",
        rule: "routing: real Ingester whose catalog reports a DualWrite / Backfill split (split point ten minutes ago, exactly at the epoch, or 7 s after it - rows of either sign around it) for the computed shard; 1-4 batches of 1-5 rows with timestamps 2 steps below .. exactly at .. 2 steps above the split point, 2 metrics, nullable host, Int64 timestamps (Timestamp(ns)-typed batches as a separate class), both catalog back-ends; oracle: chunks under each new shard's path hold exactly the accepted rows on its side (split-point rows in the upper shard), each once, and the old-shard chunks hold every accepted row. e2e: QueryNode on data dual-written by the ingester, 6 query shapes incl. count / sum / group by, vs the same SQL over a MemTable of the accepted rows. Non-trivial = rows on both sides of / at the split point, or >=2 series per (timestamp, metric), or copies present. lifecycle: an old shard with 1-3 stored chunks (paths carry the shard id), real start_split -> dual-write phase with 0-2 batches through the ingester (which sees the catalog's real split state) -> the real ShardSplitter::run_backfill -> 0-2 more batches; the same queries against a fresh QueryNode per phase or (every other case) one query node that has been serving since before the split started, before the split, in the dual-write phase, after the back-fill and after the late writes, each vs the MemTable reference. Non-trivial there = back-fill copies exist and something was dual-written.",
        assumptions: &["for genuinely identical ingested rows any multiplicity between 1 and the ingested one is accepted", "DataFusion's evaluator is the trusted reference for the end-to-end part"],
        subs: || {
            vec![
                Box::new(Sub::<RouteCase> { name: "routing", cases: |t| t.scale(10_000, 5), strategy: |_| (route_case(2), prop_oneof![3 => Just(0u8), 1 => Just(1u8), 1 => Just(2u8)]).prop_map(|(mut r, s)| { r.sp_sel = s; r }).boxed(), exec: exec_route }),
                Box::new(Sub::<E2eCase> { name: "e2e", cases: |t| t.scale(2_000, 5), strategy: |_| (route_case(1), prop::collection::vec(0u8..6, 1..4), prop_oneof![3 => Just(0u8), 1 => Just(1u8), 1 => Just(2u8)]).prop_map(|(mut route, queries, s)| { route.sp_sel = s; E2eCase { route, queries } }).boxed(), exec: exec_e2e }),
                Box::new(Sub::<LifeCase> {
                    name: "lifecycle",
                    cases: |t| t.scale(2_500, 5),
                    strategy: |_| {
                        let sb = || prop::collection::vec(srow(), 1..6).prop_map(|rows| SBatch { rows, ts_type: 0 });
                        (0u8..2, 0u8..8, prop::collection::vec(sb(), 1..4), prop::collection::vec(sb(), 0..3), prop::collection::vec(sb(), 0..3), prop::collection::vec(0u8..6, 1..4), prop_oneof![3 => Just(0u8), 1 => Just(1u8), 1 => Just(2u8)], any::<bool>()).prop_map(|(backend, flush_rows, history, dual, late, queries, sp_sel, long_lived)| LifeCase { backend, flush_rows, history, dual, late, queries, sp_sel, long_lived }).boxed()
                    },
                    exec: exec_lifecycle,
                }),
            ]
        },
    }
}
