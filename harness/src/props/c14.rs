//! C14 — a shard split can be resumed from any interruption and conserves data.
//!
//! Fault enumeration: for a generated old-shard dataset the uninterrupted split
//! is run once and its requests counted (N); then for every k < N and every mode
//! in {error before effect, error after effect, crash before, crash after} the
//! split is run with that fault at its k-th request and resumed (up to 6 times,
//! fresh splitter instance = restarted process); the end state must equal the
//! uninterrupted run's on the facets the property names.  Nested interruptions
//! (a second fault inside a resume) are sampled.

use crate::core::*;
use crate::rows::*;
use crate::sim::*;
use crate::simmeta::SimMetadata;
use crate::util::*;
use arrow_array::{ArrayRef, Float64Array, Int64Array, RecordBatch, StringArray, TimestampNanosecondArray};
use arrow_schema::{DataType, Field, Schema, TimeUnit};
use cardinalsin::ingester::{ChunkMetadata, ParquetWriter};
use cardinalsin::metadata::{LocalMetadataClient, MetadataClient, ObjectStoreMetadataClient, ObjectStoreMetadataConfig};
use cardinalsin::sharding::{ShardMetadata, ShardSplitter, ShardState, SplitProgress};
use proptest::prelude::*;
use serde::{Deserialize, Serialize};
use std::sync::Arc;

pub(crate) const OLD: &str = "shard-0ld0";
const FIVE_MIN: i64 = 300_000_000_000;

#[derive(Clone, Debug, Serialize, Deserialize)]
pub struct DChunk {
    /// row timestamps relative to the split point: -3..=3 (0 = exactly at it)
    pub rels: Vec<i8>,
}

#[derive(Clone, Debug, Serialize, Deserialize)]
pub struct Dataset {
    pub chunks: Vec<DChunk>,
    pub backend: u8,
    /// 0 = Int64 timestamps, 1 = Timestamp(ns, UTC)
    pub ts_type: u8,
}

fn t0() -> i64 {
    1_700_000_100_000_000_000 / FIVE_MIN * FIVE_MIN
}
fn split_point() -> i64 {
    t0() + 2 * FIVE_MIN
}

pub(crate) fn old_shard_meta() -> ShardMetadata {
    ShardMetadata { shard_id: OLD.to_string(), generation: 0, key_range: (vec![0u8; 8], vec![0xff; 8]), replicas: vec![], state: ShardState::Active, min_time: t0(), max_time: t0() + 4 * FIVE_MIN }
}

pub(crate) struct World {
    pub(crate) core: Arc<SimCore>,
    pub(crate) s3: bool,
    pub(crate) local: Arc<LocalMetadataClient>,
    pub(crate) rows: Vec<(i64, String)>,
}

impl World {
    pub(crate) fn md(&self, node: u32) -> Arc<dyn MetadataClient> {
        if self.s3 {
            Arc::new(ObjectStoreMetadataClient::new(self.core.node(node), ObjectStoreMetadataConfig::default()))
        } else {
            Arc::new(SimMetadata::new(node, self.core.clone(), self.local.clone()))
        }
    }
    pub(crate) fn splitter(&self, node: u32) -> ShardSplitter {
        ShardSplitter::new(self.md(node), self.core.node(node))
    }
    pub(crate) async fn build(d: &Dataset) -> Result<World, String> {
        let core = SimCore::new();
        let mut w = World { core: core.clone(), s3: d.backend % 2 == 1, local: Arc::new(LocalMetadataClient::new()), rows: vec![] };
        let md: Arc<dyn MetadataClient> = if w.s3 { Arc::new(ObjectStoreMetadataClient::new(core.node(90), ObjectStoreMetadataConfig::default())) } else { w.local.clone() };
        md.update_shard_metadata(OLD, &old_shard_meta(), 0).await.map_err(|e| format!("{:?}", e))?;
        let writer = ParquetWriter::new();
        let mut rid = 0i64;
        for (i, c) in d.chunks.iter().enumerate() {
            let ts: Vec<i64> = c.rels.iter().enumerate().map(|(k, r)| split_point() + (*r as i64).clamp(-3, 3) * 1_000_000_000 + if *r == 0 { 0 } else { k as i64 }).collect();
            let n = ts.len();
            let schema = Arc::new(Schema::new(vec![
                if d.ts_type % 2 == 0 { Field::new("timestamp", DataType::Int64, false) } else { Field::new("timestamp", DataType::Timestamp(TimeUnit::Nanosecond, Some("UTC".into())), false) },
                Field::new("metric_name", DataType::Utf8, false),
                Field::new("value_f64", DataType::Float64, true),
                Field::new("rid", DataType::Int64, false),
            ]));
            let cols: Vec<ArrayRef> = vec![
                if d.ts_type % 2 == 0 { Arc::new(Int64Array::from(ts.clone())) as ArrayRef } else { Arc::new(TimestampNanosecondArray::from(ts.clone()).with_timezone("UTC")) as ArrayRef },
                Arc::new(StringArray::from(vec!["cpu"; n])),
                Arc::new(Float64Array::from((0..n).map(|k| Some(k as f64)).collect::<Vec<_>>())),
                Arc::new(Int64Array::from((0..n as i64).map(|k| rid + k).collect::<Vec<_>>())),
            ];
            rid += n as i64;
            let b = RecordBatch::try_new(schema, cols).unwrap();
            let bytes = writer.write_batch(&b).map_err(|e| e.to_string())?;
            let path = format!("t/data/shard={}/chunk_{:02}.parquet", OLD, i);
            core.poke(&path, bytes.clone());
            let meta = ChunkMetadata { path: path.clone(), min_timestamp: *ts.iter().min().unwrap(), max_timestamp: *ts.iter().max().unwrap(), row_count: n as u64, size_bytes: bytes.len() as u64 };
            md.register_chunk(&path, &meta).await.map_err(|e| format!("{:?}", e))?;
            for (k, r) in rows_of(&b).into_iter().enumerate() {
                w.rows.push((ts[k], r));
            }
        }
        Ok(w)
    }
}

/// end state on the facets the property names
#[derive(Debug, Clone, PartialEq)]
struct EndState {
    new_a_active_range_ok: bool,
    new_b_active_range_ok: bool,
    old_pending_deletion: bool,
    split_state_gone: bool,
    progress_gone: bool,
    rows_a: Vec<String>,
    rows_b: Vec<String>,
}

async fn shard_rows(w: &World, md: &dyn MetadataClient, shard: &str) -> Result<Vec<(i64, String)>, String> {
    let mut out = Vec::new();
    for c in md.get_chunks_for_shard(shard).await.map_err(|e| format!("{:?}", e))? {
        if let Some(data) = w.core.peek(&c.chunk_path) {
            let bs = decode_parquet(data)?;
            for b in &bs {
                let rr = rows_of(b);
                for (i, r) in rr.into_iter().enumerate() {
                    let ts = ts_bounds(&[b.slice(i, 1)]).map(|x| x.0).unwrap_or(0);
                    out.push((ts, r));
                }
            }
        } else {
            return Err(format!("chunk {} of shard {} is registered but its object is gone", c.chunk_path, shard));
        }
    }
    out.sort();
    Ok(out)
}

async fn end_state(w: &World, new: &[String]) -> Result<EndState, String> {
    let md = w.md(95);
    let sp = split_point().to_be_bytes().to_vec();
    let a = md.get_shard_metadata(&new[0]).await.map_err(|e| format!("{:?}", e))?;
    let b = md.get_shard_metadata(&new[1]).await.map_err(|e| format!("{:?}", e))?;
    let o = md.get_shard_metadata(OLD).await.map_err(|e| format!("{:?}", e))?;
    let om = old_shard_meta();
    let ra = shard_rows(w, md.as_ref(), &new[0]).await?;
    let rb = shard_rows(w, md.as_ref(), &new[1]).await?;
    if let Some((ts, r)) = ra.iter().find(|(ts, _)| *ts >= split_point()) {
        return Err(format!("lower new shard holds {} (timestamp {} >= split point)", r, ts));
    }
    if let Some((ts, r)) = rb.iter().find(|(ts, _)| *ts < split_point()) {
        return Err(format!("upper new shard holds {} (timestamp {} < split point)", r, ts));
    }
    Ok(EndState {
        new_a_active_range_ok: a.map(|m| m.state == ShardState::Active && m.key_range == (om.key_range.0.clone(), sp.clone())).unwrap_or(false),
        new_b_active_range_ok: b.map(|m| m.state == ShardState::Active && m.key_range == (sp.clone(), om.key_range.1.clone())).unwrap_or(false),
        old_pending_deletion: o.map(|m| matches!(m.state, ShardState::PendingDeletion { .. })).unwrap_or(false),
        split_state_gone: md.get_split_state(OLD).await.map_err(|e| format!("{:?}", e))?.is_none(),
        progress_gone: !w.core.exists(&format!("metadata/split-progress/{}.json", OLD)),
        rows_a: ra.into_iter().map(|x| x.1).collect(),
        rows_b: rb.into_iter().map(|x| x.1).collect(),
    })
}

/// new shard ids as first persisted (survives the removal of the progress file)
fn first_progress_new_shards(w: &World) -> Option<Vec<String>> {
    w.core.versions_of(&format!("split-progress/{}.json", OLD)).first().and_then(|v| serde_json::from_slice::<SplitProgress>(&v.data).ok()).map(|p| p.new_shards)
}

fn progress_of(w: &World) -> Option<SplitProgress> {
    w.core.peek(&format!("metadata/split-progress/{}.json", OLD)).and_then(|b| serde_json::from_slice(&b).ok())
}

/// no old-shard object may be deleted before the cut-over (complete_split) took effect
fn deletes_after_cutover(w: &World) -> Result<(), String> {
    let log = w.core.log();
    let first_delete = log.iter().find(|l| l.desc.op == OpKind::Delete && l.desc.path.contains(OLD) && l.desc.path.ends_with(".parquet") && (l.outcome == "ok" || l.outcome.starts_with("err:injected-after") || l.outcome == "crash-after"));
    let fd = match first_delete {
        Some(d) => d,
        None => return Ok(()),
    };
    let cut = if w.s3 {
        // the version of split-states.json that no longer lists the old shard
        w.core.versions_of("split-states.json").iter().filter(|v| serde_json::from_slice::<serde_json::Value>(&v.data).map(|j| j.get(OLD).is_none()).unwrap_or(false)).map(|v| v.req_id).min()
    } else {
        log.iter().filter(|l| l.desc.op == OpKind::Meta && l.desc.detail == "complete_split" && (l.outcome == "ok" || l.outcome.starts_with("err:injected-after") || l.outcome == "crash-after")).map(|l| l.id).min()
    };
    match cut {
        Some(c) if c < fd.id => Ok(()),
        _ => Err(format!("{} was deleted (request {}) before the cut-over had completed", fd.desc.path, fd.id)),
    }
}

const LONG: std::time::Duration = std::time::Duration::from_secs(200_000);

/// run the split (or a resume) as a task; returns Ok(result) or Err(()) if it hangs (crashed node)
pub(crate) async fn run_split(w: &World, node: u32, resume: bool) -> Result<Result<bool, String>, ()> {
    let s = w.splitter(node);
    let h = tokio::spawn(async move {
        if resume {
            s.resume_split(OLD).await.map_err(|e| format!("{:?}", e))
        } else {
            s.execute_split_with_monitoring(&ShardMetadata { generation: 1, ..old_shard_meta() }).await.map(|_| true).map_err(|e| format!("{:?}", e))
        }
    });
    let ah = h.abort_handle();
    match tokio::time::timeout(LONG, h).await {
        Ok(Ok(r)) => Ok(r),
        Ok(Err(e)) => {
            if e.is_panic() {
                Ok(Err(format!("PANIC {}", take_last_panic().unwrap_or_default())))
            } else {
                Err(())
            }
        }
        Err(_) => {
            ah.abort();
            Err(())
        }
    }
}

fn phase_of(p: &Option<SplitProgress>) -> String {
    match p {
        None => "nothing-persisted".into(),
        Some(p) => format!("after-{:?}{}", p.completed_phase, if p.shard_a_created || p.shard_b_created || p.old_shard_deactivated { "+cutover-substeps" } else { "" }),
    }
}

/// One faulted execution + resumes.  Returns Err((signature, message)) on violation.
async fn faulted_run(d: &Dataset, reference: &EndState, faults: &[(u64, Decision)], out: &mut Outcome) -> Result<bool, (String, String)> {
    let w = World::build(d).await.map_err(|e| ("build-failed".to_string(), e))?;
    let mut node = 1u32;
    let initial_catalog = w.md(96).list_chunks().await.map(|v| v.len()).unwrap_or(0);
    w.core.set_fault_plan(vec![faults[0]], Some(node));
    let first = run_split(&w, node, false).await;
    w.core.clear_faults();
    let hit = w.core.log().iter().any(|l| l.desc.node == node && l.decision.map(|d| d != Decision::Proceed).unwrap_or(false));
    if first.is_err() {
        w.core.kill(node);
    }
    let interrupted = !matches!(first, Ok(Ok(_)));
    let mut new_shards = progress_of(&w).map(|p| p.new_shards);
    let phase = phase_of(&progress_of(&w));
    let modes = format!("{:?}", faults.iter().map(|f| f.1).collect::<Vec<_>>());
    let mut last_err = String::new();
    let mut done = !interrupted;
    let mut resumed_false = false;
    if interrupted {
        for attempt in 0..6 {
            node += 1;
            if attempt == 0 && faults.len() > 1 {
                w.core.set_fault_plan(vec![faults[1]], Some(node));
            }
            let r = run_split(&w, node, true).await;
            w.core.clear_faults();
            if new_shards.is_none() {
                new_shards = progress_of(&w).map(|p| p.new_shards);
            }
            match r {
                Ok(Ok(true)) => {
                    done = true;
                    break;
                }
                Ok(Ok(false)) => {
                    resumed_false = true;
                    done = true;
                    break;
                }
                Ok(Err(e)) => {
                    if e.starts_with("PANIC") {
                        return Err((format!("resume-panic:{}", phase), e));
                    }
                    last_err = e;
                }
                Err(()) => {
                    w.core.kill(node);
                }
            }
        }
    }
    if let Err(m) = deletes_after_cutover(&w) {
        return Err(("old-shard-data-removed-before-cut-over".into(), m));
    }
    if !done {
        return Err((format!("cannot-be-resumed:{}", phase), format!("fault {:?} at request {:?} ({}): resume_split still fails after 6 attempts without further faults: {}", modes, faults.iter().map(|f| f.0).collect::<Vec<_>>(), phase, last_err)));
    }
    if resumed_false {
        // no progress file: either nothing was ever done (initial state) or everything was
        // (the only thing the fault hit was the removal of the progress file itself)
        let md = w.md(97);
        let untouched = md.get_split_state(OLD).await.ok().flatten().is_none() && md.list_chunks().await.map(|v| v.len()).unwrap_or(0) == initial_catalog && md.get_shard_metadata(OLD).await.ok().flatten().map(|m| m.state == ShardState::Active).unwrap_or(false);
        if untouched {
            return Ok(hit);
        }
        let complete = match first_progress_new_shards(&w) {
            Some(n) => end_state(&w, &n).await.map(|es| &es == reference).unwrap_or(false),
            None => false,
        };
        if !complete {
            return Err((format!("nothing-to-resume-but-split-half-done:{}", phase), format!("fault {} at request {:?}: resume_split returned false (no progress file) but the split is neither untouched nor complete", modes, faults.iter().map(|f| f.0).collect::<Vec<_>>())));
        }
        return Ok(hit);
    }
    let new = match new_shards.or_else(|| first_progress_new_shards(&w)) {
        Some(n) => n,
        None => return Err(("no-progress-file-ever-written".into(), "the split finished without ever persisting progress".into())),
    };
    let _ = out;
    let es = end_state(&w, &new).await.map_err(|e| (format!("end-state-wrong:rows-on-wrong-side-or-missing-object:{}", phase), e))?;
    if &es != reference {
        let facet = if es.rows_a != reference.rows_a || es.rows_b != reference.rows_b {
            if es.rows_a.len() + es.rows_b.len() < reference.rows_a.len() + reference.rows_b.len() { "rows-missing-from-new-shards" } else { "rows-duplicated-in-new-shards" }
        } else if !es.new_a_active_range_ok || !es.new_b_active_range_ok {
            "new-shard-not-active-or-range-wrong"
        } else if !es.old_pending_deletion {
            "old-shard-not-marked-for-deletion"
        } else if !es.split_state_gone || !es.progress_gone {
            "split-bookkeeping-left-behind"
        } else {
            "other"
        };
        return Err((format!("end-state-differs:{}:{}", facet, phase), format!("fault {} at request {:?} ({}): end state after resume {:?} differs from the uninterrupted split's {:?}", modes, faults.iter().map(|f| f.0).collect::<Vec<_>>(), phase, es, reference)));
    }
    Ok(hit)
}

async fn reference_run(d: &Dataset) -> Result<(EndState, u64), (String, String)> {
    let w = World::build(d).await.map_err(|e| ("build-failed".to_string(), e))?;
    w.core.set_fault_plan(vec![], Some(1));
    let r = run_split(&w, 1, false).await;
    let n = w.core.counted();
    let new = first_progress_new_shards(&w).unwrap_or_default();
    match r {
        Ok(Ok(_)) => {}
        Ok(Err(e)) => return Err(("uninterrupted-split-fails".into(), format!("execute_split_with_monitoring without any fault: {}", e))),
        Err(()) => return Err(("uninterrupted-split-hangs".into(), String::new())),
    }
    deletes_after_cutover(&w).map_err(|m| ("old-shard-data-removed-before-cut-over".to_string(), m))?;
    if new.len() != 2 {
        return Err(("uninterrupted-split-wrong-end-state".into(), format!("progress file never named two new shards: {:?}", new)));
    }
    let (a, b) = (new[0].clone(), new[1].clone());
    let es = end_state(&w, &[a, b]).await.map_err(|e| ("uninterrupted-split-wrong-end-state".to_string(), e))?;
    let total: usize = d.chunks.iter().map(|c| c.rels.len()).sum();
    if !(es.new_a_active_range_ok && es.new_b_active_range_ok && es.old_pending_deletion && es.split_state_gone && es.progress_gone) || es.rows_a.len() + es.rows_b.len() != total {
        return Err(("uninterrupted-split-wrong-end-state".into(), format!("{:?} (dataset has {} rows)", es, total)));
    }
    Ok((es, n))
}

pub fn exec_enumerate(d: &Dataset) -> Outcome {
    let rt = rt_paused();
    rt.block_on(async {
        let mut out = Outcome::pass();
        out.class(if d.backend % 2 == 1 { "backend:s3" } else { "backend:local" });
        out.class(if d.ts_type % 2 == 0 { "ts:int64" } else { "ts:timestamp" });
        let (reference, n) = match reference_run(d).await {
            Ok(x) => x,
            Err((s, m)) => {
                out.set_fail(format!("{}:{}", s, if d.ts_type % 2 == 0 { "int64" } else { "timestamp" }), m);
                return out;
            }
        };
        out.count("requests_in_uninterrupted_split", n);
        let mut execs = 1u64;
        let mut nontrivial = 0u64;
        for k in 0..n {
            for mode in [Decision::FailBefore, Decision::FailAfter, Decision::CrashBefore, Decision::CrashAfter] {
                execs += 1;
                match faulted_run(d, &reference, &[(k, mode)], &mut out).await {
                    Ok(hit) => {
                        if hit {
                            nontrivial += 1;
                        }
                    }
                    Err((s, m)) => {
                        out.count("executions", execs);
                        out.set_fail(s, m);
                        return out;
                    }
                }
            }
        }
        out.count("executions", execs);
        out.count("nontrivial_executions", nontrivial);
        out.nontrivial = nontrivial > 0;
        out
    })
}

#[derive(Clone, Debug, Serialize, Deserialize)]
pub struct NestedCase {
    pub data: Dataset,
    pub k1: u8,
    pub m1: Decision,
    pub k2: u8,
    pub m2: Decision,
}

pub fn exec_nested(c: &NestedCase) -> Outcome {
    let rt = rt_paused();
    rt.block_on(async {
        let mut out = Outcome::pass();
        let (reference, n) = match reference_run(&c.data).await {
            Ok(x) => x,
            Err((s, m)) => {
                out.set_fail(s, m);
                return out;
            }
        };
        let k1 = (c.k1 as u64) % n.max(1);
        match faulted_run(&c.data, &reference, &[(k1, c.m1), (c.k2 as u64 % 40, c.m2)], &mut out).await {
            Ok(hit) => out.nontrivial = hit,
            Err((s, m)) => out.set_fail(format!("nested:{}", s), m),
        }
        out
    })
}

pub(crate) fn dataset(ts_types: u8) -> impl Strategy<Value = Dataset> {
    (prop::collection::vec(prop::collection::vec(prop_oneof![2 => Just(0i8), 5 => -3i8..=3], 1..5).prop_map(|rels| DChunk { rels }), 1..4), 0u8..2, 0u8..ts_types).prop_map(|(chunks, backend, ts_type)| Dataset { chunks, backend, ts_type })
}

fn decision() -> impl Strategy<Value = Decision> {
    prop_oneof![Just(Decision::FailBefore), Just(Decision::FailAfter), Just(Decision::CrashBefore), Just(Decision::CrashAfter)]
}

pub fn def() -> PropDef {
    PropDef {
        id: "C14",
        level: "fault_enumeration",
        rule: "enumerate: generated old-shard datasets (1-3 chunks whose paths carry the shard id, 1-4 rows each with timestamps below / exactly at / above the split point, Int64 timestamps; Timestamp(ns)-typed data as a separate sub-check) on both catalog back-ends; the uninterrupted split is run once (N requests); then EVERY k < N x {error before effect, error after effect, crash before, crash after} is executed: split with that fault, then resume_split (fresh splitter = restarted process) up to 6 times; the end state must equal the uninterrupted run's: both new shards Active with [lo,sp) / [sp,hi), old shard PendingDeletion, no split state, no progress file, rows(new A) + rows(new B) == rows(old) with A < sp <= B each once, no old-shard object deleted before complete_split took effect; 'nothing persisted' => resume returns false and the state is the initial one. nested: a second fault inside the first resume, sampled. An execution is non-trivial when the injected fault actually hit a request of the split (so a resume or error path was exercised); evaluations counts executions.",
        assumptions: &["virtual time absorbs the 10 s / 300 s sleeps", "crash = the splitter's process stops at a request boundary; a resumed split runs in a fresh ShardSplitter on the same store / catalog", "generation counters and delete_after instants are not compared"],
        subs: || {
            vec![
                Box::new(Sub::<Dataset> { name: "enumerate", cases: |t| t.pick(16, 80), strategy: |_| dataset(1).boxed(), exec: exec_enumerate }),
                Box::new(Sub::<Dataset> { name: "enumerate-timestamp-typed", cases: |t| t.pick(4, 16), strategy: |_| dataset(2).prop_map(|mut d| { d.ts_type = 1; d }).boxed(), exec: exec_enumerate }),
                Box::new(Sub::<NestedCase> { name: "nested", cases: |t| t.scale(300, 10), strategy: |_| (dataset(1), any::<u8>(), decision(), any::<u8>(), decision()).prop_map(|(data, k1, m1, k2, m2)| NestedCase { data, k1, m1, k2, m2 }).boxed(), exec: exec_nested }),
            ]
        },
    }
}
