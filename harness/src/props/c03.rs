//! C03 — compaction never loses or duplicates stored rows.

use crate::cenv::*;
use crate::core::*;
use crate::sim::*;
use crate::util::*;
use cardinalsin::compactor::Compactor;
use cardinalsin::metadata::CompactionLeases;
use proptest::prelude::*;
use serde::{Deserialize, Serialize};
use std::collections::{BTreeMap, BTreeSet};
use std::sync::Arc;

#[derive(Clone, Debug, Serialize, Deserialize)]
pub enum COp {
    Cycle {
        /// bit 0 = compactor 0, bit 1 = compactor 1
        who: u8,
        schedule: Vec<u16>,
        /// (driver step, decision, compactor)
        fault: Option<(u8, Decision, u8)>,
        /// driver step at which 310 s pass (leases expire while their holders are parked)
        advance_at: Option<u8>,
    },
    /// 310 s pass between cycles
    AdvanceTime,
    Restart(u8),
}

#[derive(Clone, Debug, Serialize, Deserialize)]
pub struct Case {
    pub chunks: Vec<ChunkSpec>,
    pub cfg: CConfig,
    pub backend: u8,
    pub ops: Vec<COp>,
}

struct Comp {
    node: u32,
    c: Option<Arc<Compactor>>,
}

fn rid_of(row: &str) -> Option<i64> {
    let i = row.find("rid=I:")?;
    let rest = &row[i + 6..];
    let end = rest.find('|')?;
    rest[..end].parse().ok()
}

pub fn shift_leases(world: &CWorld, secs: i64) {
    if world.s3 {
        if let Some(p) = world.core.find_path("compaction-leases.json") {
            world.core.surgery(&p, |b| {
                let mut ls: CompactionLeases = serde_json::from_slice(b).ok()?;
                let d = chrono::Duration::seconds(secs);
                for l in ls.leases.values_mut() {
                    l.acquired_at -= d;
                    l.expires_at -= d;
                }
                serde_json::to_vec_pretty(&ls).ok()
            });
        }
    } else {
        world.local.verif_shift_lease_times(secs);
    }
}

struct Tracker {
    /// every chunk ever seen live: path -> (rids, level)
    known: BTreeMap<String, (BTreeSet<i64>, u32)>,
}

async fn check_quiescent(world: &mut CWorld, tr: &mut Tracker, out: &mut Outcome, ctx: &str) -> bool {
    let got = match world.reachable().await {
        Ok(r) => r,
        Err(e) => {
            out.set_fail("catalog-unreadable", format!("{}: {}", ctx, e));
            return false;
        }
    };
    if got != world.initial_rows {
        let want: &Vec<String> = &world.initial_rows;
        let missing = want.iter().filter(|r| !got.contains(r)).count();
        let sig = if missing > 0 { "rows-lost" } else { "rows-duplicated" };
        out.set_fail(sig, format!("{}: with no compaction in progress {} rows are reachable, {} were stored ({} of them unreachable)", ctx, got.len(), want.len(), missing));
        return false;
    }
    track(world, tr, out, ctx).await
}

/// level rule for chunks not seen before (called at every scheduling step, so chunks that
/// only live for part of a cycle are seen too)
async fn track(world: &mut CWorld, tr: &mut Tracker, out: &mut Outcome, ctx: &str) -> bool {
    let cat = world.catalog().await.unwrap_or_default();
    for (p, level, _) in &cat {
        if p.starts_with("dummy/") || tr.known.contains_key(p) {
            continue;
        }
        let rows = world.rows_of_chunk(p).unwrap_or_default();
        let rids: BTreeSet<i64> = rows.iter().filter_map(|r| rid_of(r)).collect();
        let srcs: Vec<(&String, u32)> = tr.known.iter().filter(|(_, (r, _))| !r.is_empty() && r.is_subset(&rids)).map(|(k, (_, l))| (k, *l)).collect();
        if let Some(maxl) = srcs.iter().map(|(_, l)| *l).max() {
            if *level != maxl + 1 {
                out.set_fail("merged-chunk-level-wrong", format!("{}: {} replaced {:?} but is at level {}", ctx, p, srcs, level));
                return false;
            }
            out.class("compaction-published");
            if maxl >= 1 {
                out.class("compaction-published-at-level>=1");
            }
        }
        tr.known.insert(p.clone(), (rids, *level));
    }
    true
}

pub fn exec(case: &Case) -> Outcome {
    let rt = rt_paused();
    rt.block_on(async {
        let mut out = Outcome::pass();
        let core = SimCore::new();
        let mut world = match CWorld::build(core.clone(), case.backend % 2 == 1, &case.chunks).await {
            Ok(w) => w,
            Err(e) => {
                out.set_fail("dataset-build-failed", e);
                return out;
            }
        };
        out.class(if world.s3 { "backend:s3" } else { "backend:local" });
        let mut tr = Tracker { known: BTreeMap::new() };
        if !check_quiescent(&mut world, &mut tr, &mut out, "initial state").await {
            return out;
        }
        let mut comps = vec![Comp { node: 1, c: Some(world.compactor(1, &case.cfg, None)) }, Comp { node: 2, c: Some(world.compactor(2, &case.cfg, None)) }];
        let mut next_node = 10u32;
        let mut interrupted_after_upload = false;
        for (oi, op) in case.ops.iter().enumerate() {
            match op {
                COp::Restart(i) => {
                    let i = (*i % 2) as usize;
                    if comps[i].c.is_none() {
                        comps[i] = Comp { node: next_node, c: Some(world.compactor(next_node, &case.cfg, None)) };
                        next_node += 1;
                        out.class("restart");
                    }
                }
                COp::AdvanceTime => {
                    core.add_shift(310);
                    shift_leases(&world, 310);
                    for c in comps.iter().filter_map(|c| c.c.as_ref()) {
                        c.verif_shift_pending_deletions(310);
                    }
                }
                COp::Cycle { who, schedule, fault, advance_at } => {
                    let mut handles: Vec<tokio::task::JoinHandle<()>> = Vec::new();
                    let mut running: Vec<usize> = Vec::new();
                    for i in 0..2 {
                        if who & (1 << i) != 0 || *who % 4 == 0 && i == 0 {
                            if let Some(c) = &comps[i].c {
                                let c = c.clone();
                                handles.push(tokio::spawn(async move {
                                    let _ = c.run_compaction_cycle().await;
                                }));
                                running.push(i);
                            }
                        }
                    }
                    if handles.is_empty() {
                        continue;
                    }
                    if running.len() == 2 {
                        out.class("two-compactors-concurrently");
                    }
                    core.set_scheduled(true);
                    core.set_gate_nodes(Some(running.iter().map(|i| comps[*i].node).collect()));
                    let uploads_before = core.attempts().len();
                    let mut pos = 0usize;
                    let mut step = 0u32;
                    let mut idle = 0u32;
                    let mut crashed: Vec<usize> = Vec::new();
                    let mut fault_fired = false;
                    loop {
                        quiesce().await;
                        if handles.iter().enumerate().all(|(k, h)| h.is_finished() || crashed.contains(&running[k])) {
                            break;
                        }
                        let pend = core.pending();
                        if pend.is_empty() {
                            idle += 1;
                            if idle > 3000 {
                                out.set_fail("cycle-did-not-finish", format!("op {}: compaction cycle neither finished nor parked", oi));
                                return out;
                            }
                            let n = core.arrival.notified();
                            tokio::select! { _ = n => {}, _ = tokio::time::sleep(std::time::Duration::from_secs(5)) => {} }
                            continue;
                        }
                        idle = 0;
                        if step > 20_000 {
                            out.set_fail("cycle-did-not-finish", format!("op {}: more than 20000 requests", oi));
                            return out;
                        }
                        // invariant at every scheduling step: nothing previously queryable is unqueryable
                        let got = match world.reachable().await {
                            Ok(r) => r,
                            Err(e) => {
                                out.set_fail("catalog-unreadable", e);
                                return out;
                            }
                        };
                        let mut pool: BTreeMap<&String, u32> = BTreeMap::new();
                        for r in &got {
                            *pool.entry(r).or_insert(0) += 1;
                        }
                        if let Some(lost) = world.initial_rows.iter().find(|r| !pool.contains_key(*r)) {
                            out.set_fail("row-unqueryable-during-compaction", format!("op {} step {}: row {} is reachable through no registered chunk", oi, step, lost));
                            return out;
                        }
                        if !track(&mut world, &mut tr, &mut out, &format!("op {} step {}", oi, step)).await {
                            return out;
                        }
                        if advance_at.map(|a| a as u32 == step).unwrap_or(false) {
                            core.add_shift(310);
                            shift_leases(&world, 310);
                            out.class("lease-expiry-while-holder-parked");
                        }
                        let sv = if pos < schedule.len() { schedule[pos] } else { ((pos as u32 * 7919) % 65521) as u16 };
                        pos += 1;
                        let pick = &pend[pick_idx(sv, pend.len())];
                        let mut d = Decision::Proceed;
                        if let Some((at, fd, fw)) = fault {
                            let fnode = comps[(*fw % 2) as usize].node;
                            // armed from step `at` on: fires at the first request of that compactor
                            if *at as u32 <= step && pick.desc.node == fnode && !fault_fired {
                                d = *fd;
                                fault_fired = true;
                            }
                        }
                        step += 1;
                        if d != Decision::Proceed {
                            out.count("faults_injected", 1);
                        }
                        if matches!(d, Decision::CrashBefore | Decision::CrashAfter) {
                            let i = comps.iter().position(|c| c.node == pick.desc.node).unwrap();
                            crashed.push(i);
                            out.class("crash-mid-cycle");
                        } else if d != Decision::Proceed {
                            out.class("request-error-mid-cycle");
                        }
                        core.release(pick.id, d);
                    }
                    out.count("requests_scheduled", step as u64);
                    quiesce().await;
                    for (k, h) in handles.iter().enumerate() {
                        if crashed.contains(&running[k]) {
                            h.abort();
                        }
                    }
                    for h in handles {
                        if let Err(e) = h.await {
                            if e.is_panic() {
                                let p = take_last_panic().unwrap_or_default();
                                out.set_fail(format!("compactor-panic:{}", panic_site(&p)), p);
                                return out;
                            }
                        }
                    }
                    for i in &crashed {
                        core.kill(comps[*i].node);
                        comps[*i].c = None;
                    }
                    core.set_scheduled(false);
                    core.set_gate_nodes(None);
                    let uploaded = core.attempts().len() > uploads_before;
                    if uploaded && (!crashed.is_empty() || fault.is_some()) {
                        interrupted_after_upload = true;
                    }
                    if !check_quiescent(&mut world, &mut tr, &mut out, &format!("after op {} ({} requests)", oi, step)).await {
                        return out;
                    }
                }
            }
        }
        out.nontrivial = out.classes.iter().any(|c| c == "compaction-published") || interrupted_after_upload;
        if interrupted_after_upload {
            out.class("interrupted-after-upload");
        }
        out
    })
}

fn decision() -> impl Strategy<Value = Decision> {
    prop_oneof![Just(Decision::FailBefore), Just(Decision::FailAfter), Just(Decision::CrashBefore), Just(Decision::CrashAfter)]
}

fn cop() -> impl Strategy<Value = COp> {
    prop_oneof![
        8 => (1u8..4, prop::collection::vec(any::<u16>(), 0..40), prop::option::weighted(0.4, (0u8..60, decision(), 0u8..2)), prop::option::weighted(0.2, 0u8..40)).prop_map(|(who, schedule, fault, advance_at)| COp::Cycle { who, schedule, fault, advance_at }),
        1 => Just(COp::AdvanceTime),
        2 => (0u8..2).prop_map(COp::Restart),
    ]
}

fn strategy(t: Tier) -> BoxedStrategy<Case> {
    (prop::collection::vec(chunk_spec(), 2..t.pick(12usize, 16usize)), cconfig(), 0u8..2, prop::collection::vec(cop(), 1..t.pick(6usize, 8usize))).prop_map(|(chunks, cfg, backend, ops)| Case { chunks, cfg, backend, ops }).boxed()
}

pub fn def() -> PropDef {
    PropDef {
        id: "C03",
        level: "exploration",
        rule: "datasets of 2-11 (thorough 15) real Parquet chunks of 1-6 rows in hour buckets 0-71 h old, levels 0-3 (built through register_chunk + complete_compaction), occasionally a chunk with a different schema; configs l0_merge_threshold 1-4, level target sizes in {1 B, 1.5 KB, 6 KB, 1 GiB}, max_levels 1-4; histories of 1-5 (7) ops from {cycle by compactor 0 / 1 / both concurrently with a generated schedule over every store / catalog request, an optional fault {error before, error after, crash before, crash after} at a generated step, and optionally 310 s passing at a generated step while requests are parked; 310 s passing between cycles; restart of a crashed compactor}; both catalog back-ends. Invariant at every scheduling step: every initially stored row is reachable through a registered chunk whose object exists; after every cycle (crashed cycles count as ended): reachable multiset == initial multiset; every new chunk is one level above the highest-level chunk whose rows it holds. Non-trivial = a compaction was published, or a cycle was interrupted after it had uploaded a merged object.",
        assumptions: &["rows inside the retention window (<= 3 days old, retention 90 days)", "lease expiry = stored instants shifted by 310 s (ETag bump forces in-flight RMWs to restart)", "LocalMetadataClient sits behind a per-call gate: each trait call is atomic"],
        subs: || vec![Box::new(Sub::<Case> { name: "history", cases: |t| t.scale(20_000, 5), strategy, exec })],
    }
}
