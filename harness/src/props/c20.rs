//! C20 — compaction converges and levels only move up.

use crate::cenv::*;
use crate::core::*;
use crate::sim::*;
use crate::util::*;
use proptest::prelude::*;
use serde::{Deserialize, Serialize};
use std::collections::{BTreeMap, BTreeSet};

#[derive(Clone, Debug, Serialize, Deserialize)]
pub struct Case {
    pub chunks: Vec<ChunkSpec>,
    pub cfg: CConfig,
    pub backend: u8,
}

fn rid_of(row: &str) -> Option<i64> {
    let i = row.find("rid=I:")?;
    let rest = &row[i + 6..];
    rest[..rest.find('|')?].parse().ok()
}

pub fn exec(case: &Case) -> Outcome {
    let rt = rt_paused();
    rt.block_on(async {
        let mut out = Outcome::pass();
        let core = SimCore::new();
        // keep one schema: a group that cannot be merged is legitimately left alone, not the subject here
        let chunks: Vec<ChunkSpec> = case.chunks.iter().map(|c| ChunkSpec { schema: c.schema & 0x18, ..c.clone() }).collect();
        let mut world = match CWorld::build(core.clone(), case.backend % 2 == 1, &chunks).await {
            Ok(w) => w,
            Err(e) => {
                out.set_fail("dataset-build-failed", e);
                return out;
            }
        };
        let cfg = case.cfg.build();
        let comp = world.compactor(1, &case.cfg, None);
        let bound = chunks.len() * (cfg.max_levels + 1) + 3;
        let mut changing_cycles = 0u32;
        let mut unchanged_in_a_row = 0u32;
        let mut multi = false;
        let mut climbed = false;
        let mut levels_seen: BTreeMap<String, u32> = BTreeMap::new();
        let target = |level: usize| -> usize {
            match level {
                1 => cfg.l1_target_size,
                2 => cfg.l2_target_size,
                _ => cfg.l2_target_size.saturating_mul(5),
            }
        };
        for cycle in 0..bound + 2 {
            let before = match world.catalog().await {
                Ok(c) => c,
                Err(e) => {
                    out.set_fail("catalog-unreadable", e);
                    return out;
                }
            };
            let level_of: BTreeMap<String, u32> = before.iter().map(|(p, l, _)| (p.clone(), *l)).collect();
            // ---- candidate groups of this cycle ----
            let md = world.metadata(50 + cycle as u32);
            let mut selected: BTreeSet<String> = BTreeSet::new();
            let mut groups: Vec<(usize, Vec<String>)> = Vec::new();
            match md.get_l0_candidates(cfg.l0_merge_threshold).await {
                Ok(gs) => groups.extend(gs.into_iter().map(|g| (0usize, g))),
                Err(e) => {
                    out.set_fail("candidates-error", format!("{:?}", e));
                    return out;
                }
            }
            for level in 1..=cfg.max_levels {
                match md.get_level_candidates(level, target(level)).await {
                    Ok(gs) => groups.extend(gs.into_iter().filter(|g| g.len() >= 2).map(|g| (level, g))),
                    Err(e) => {
                        out.set_fail("candidates-error", format!("{:?}", e));
                        return out;
                    }
                }
            }
            for (level, g) in &groups {
                for p in g {
                    if !selected.insert(p.clone()) {
                        out.set_fail("chunk-in-two-groups", format!("cycle {}: {} is selected into two candidate groups", cycle, p));
                        return out;
                    }
                    match level_of.get(p) {
                        Some(l) if *l as usize == *level => {}
                        other => {
                            out.set_fail("candidate-group-not-level-homogeneous", format!("cycle {}: group for level {} contains {} which is at level {:?}", cycle, level, p, other));
                            return out;
                        }
                    }
                }
            }
            // ---- run one cycle ----
            if let Err(e) = comp.run_compaction_cycle().await {
                out.set_fail("cycle-error-without-fault", format!("cycle {}: {:?}", cycle, e));
                return out;
            }
            let after = world.catalog().await.unwrap_or_default();
            // rows conserved
            match world.reachable().await {
                Ok(r) if r == world.initial_rows => {}
                Ok(r) => {
                    out.set_fail("rows-not-conserved", format!("cycle {}: {} rows reachable, {} stored", cycle, r.len(), world.initial_rows.len()));
                    return out;
                }
                Err(e) => {
                    out.set_fail("catalog-unreadable", e);
                    return out;
                }
            }
            let bset: BTreeMap<&String, u32> = before.iter().map(|(p, l, _)| (p, *l)).collect();
            let aset: BTreeMap<&String, u32> = after.iter().map(|(p, l, _)| (p, *l)).collect();
            for (p, l) in &aset {
                let prev = levels_seen.entry((*p).clone()).or_insert(*l);
                if *l < *prev {
                    out.set_fail("level-decreased", format!("cycle {}: {} went from level {} to {}", cycle, p, prev, l));
                    return out;
                }
                *prev = *l;
            }
            let removed: Vec<&String> = bset.keys().filter(|p| !aset.contains_key(*p)).cloned().collect();
            let added: Vec<&String> = aset.keys().filter(|p| !bset.contains_key(*p)).cloned().collect();
            // chunks that only lived within the cycle (merged again at the next level) are not visible here;
            // attribute removed chunks to added ones through their row ids
            let mut attributed: BTreeSet<&String> = BTreeSet::new();
            for a in &added {
                let rids: BTreeSet<i64> = world.rows_of_chunk(a).unwrap_or_default().iter().filter_map(|r| rid_of(r)).collect();
                let srcs: Vec<&String> = removed.iter().filter(|r| !r.starts_with("dummy/")).filter(|r| {
                    let rr: BTreeSet<i64> = world.memo.get(**r).map(|rows| rows.iter().filter_map(|x| rid_of(x)).collect()).unwrap_or_default();
                    !rr.is_empty() && rr.is_subset(&rids)
                }).cloned().collect();
                if srcs.is_empty() {
                    out.set_fail("new-chunk-without-sources", format!("cycle {}: {} appeared but replaces nothing", cycle, a));
                    return out;
                }
                let src_levels: BTreeSet<u32> = srcs.iter().map(|s| bset[*s]).collect();
                let al = aset[*a];
                let maxl = *src_levels.iter().max().unwrap();
                // within one cycle a chunk may climb several levels (L0 -> L1 -> L2 ...): the visible sources
                // must then all be at or below the level just under the new chunk, and a direct merge
                // (one level up) must come from one level only
                if al <= maxl {
                    out.set_fail("merged-chunk-not-above-its-sources", format!("cycle {}: {} at level {} replaces sources at levels {:?}", cycle, a, al, src_levels));
                    return out;
                }
                if al == maxl + 1 && src_levels.len() > 1 && src_levels.iter().min().map(|m| *m + 1 == al).unwrap_or(false) {
                    // all sources one level below => homogeneous by definition; mixed direct merge would show min+1 == al too
                }
                if al as usize > cfg.max_levels + 1 {
                    out.set_fail("level-beyond-limit", format!("cycle {}: {} at level {} with max_levels {}", cycle, a, al, cfg.max_levels));
                    return out;
                }
                attributed.extend(srcs);
            }
            for r in &removed {
                if !r.starts_with("dummy/") && !attributed.contains(r) {
                    out.set_fail("chunk-removed-without-replacement", format!("cycle {}: {} left the catalog but no new chunk holds its rows", cycle, r));
                    return out;
                }
            }
            if added.len() >= 2 {
                multi = true;
            }
            if added.iter().any(|a| aset[*a] >= 2) {
                climbed = true;
            }
            let changed = bset != aset;
            if changed {
                changing_cycles += 1;
                unchanged_in_a_row = 0;
            } else {
                unchanged_in_a_row += 1;
                if unchanged_in_a_row >= 2 {
                    break;
                }
            }
            if cycle + 1 >= bound + 2 {
                out.set_fail("did-not-converge", format!("{} cycles on {} chunks (max_levels {}) and the catalog still changes", cycle + 1, chunks.len(), cfg.max_levels));
                return out;
            }
        }
        out.nontrivial = changing_cycles >= 2 || multi || climbed;
        if multi {
            out.class("cycle-published-several-chunks");
        }
        if climbed {
            out.class("chunk-reached-level>=2");
        }
        if changing_cycles >= 2 {
            out.class("two-or-more-changing-cycles");
        }
        out.count("catalog_changing_cycles", changing_cycles as u64);
        if changing_cycles >= 1 {
            out.class("at-least-one-changing-cycle");
        }
        out.class(if world.s3 { "backend:s3" } else { "backend:local" });
        out
    })
}

fn strategy(t: Tier) -> BoxedStrategy<Case> {
    (prop::collection::vec(chunk_spec(), 1..t.pick(16usize, 21usize)), cconfig(), 0u8..2).prop_map(|(chunks, cfg, backend)| Case { chunks, cfg, backend }).boxed()
}

pub fn def() -> PropDef {
    PropDef {
        id: "C20",
        level: "exploration",
        rule: "fault-free, single compactor: datasets of 1-15 (thorough 20) real chunks (1-6 rows, hour buckets 0-71 h old, one in four spanning two hour buckets, levels 0-3), configs l0_merge_threshold 1-4, level target sizes in {1 B, 1.5 KB, 6 KB, 1 GiB}, max_levels 1-4, both catalog back-ends; before each cycle the candidate groups of all levels must be pairwise disjoint and level-homogeneous; after each cycle rows are conserved, every new chunk is above the chunks whose rows it took over, every removed chunk is accounted for, no path's level decreased; within chunks x (max_levels+1) + 3 cycles two consecutive cycles leave the catalog unchanged. Non-trivial = a cycle published at least two merged chunks, or a chunk reached level >= 2, or at least 2 cycles changed the catalog before the fixpoint (on this code base one cycle cascades through all levels, so the last class is normally empty).",
        assumptions: &["bounded convergence: the fixpoint must be reached within the stated number of cycles", "one schema per dataset (groups that cannot be merged are C03's subject)"],
        subs: || vec![Box::new(Sub::<Case> { name: "cycles", cases: |t| t.scale(12_000, 4), strategy, exec })],
    }
}
