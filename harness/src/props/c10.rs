//! C10 — concurrent queries do not affect each other's results.
//!
//! One `QueryNode`; 2-4 queries with different windows / predicates run as
//! concurrent tasks; the scheduler owns the interleaving at the pause point
//! between table registration and statement planning.  Oracle: every
//! concurrent answer equals the answer of the same query run alone on a fresh
//! node.  A sampled variant runs on a real multi-thread runtime.

use crate::core::*;
use crate::props::c04::{to_sql, Proj, Query, Rest, Win, Bound};
use crate::qenv::*;
use crate::sim::*;
use crate::util::*;
use cardinalsin::query::StreamingQueryExecutor;
use proptest::prelude::*;
use serde::{Deserialize, Serialize};
use std::sync::Arc;

tokio::task_local! {
    static QUERY_IDX: u32;
}

#[derive(Clone, Debug, Serialize, Deserialize)]
pub struct Case {
    pub data: Dataset,
    pub queries: Vec<Query>,
    /// which queries go through the streaming executor's historical phase
    pub streaming: Vec<bool>,
    pub schedule: Vec<u16>,
}

async fn run_one(node: Arc<cardinalsin::query::QueryNode>, env_md: Arc<dyn cardinalsin::metadata::MetadataClient>, sql: String, streaming: bool) -> Result<Vec<String>, String> {
    if streaming {
        let chan = cardinalsin::ingester::BroadcastChannel::new(8);
        let ex = StreamingQueryExecutor::new(node.engine.clone(), env_md, chan.subscribe());
        let mut rx = ex.execute(&sql).await.map_err(|e| format!("{:?}", e))?;
        drop(chan); // closes the live phase
        let mut out = Vec::new();
        while let Some(b) = rx.recv().await {
            out.push(b.map_err(|e| format!("{:?}", e))?);
        }
        Ok(result_rows(&out))
    } else {
        node.query(&sql).await.map(|b| result_rows(&b)).map_err(|e| format!("{:?}", e))
    }
}

fn prepare(case: &Case) -> (i64, Vec<String>) {
    let now = chrono::Utc::now().timestamp_nanos_opt().unwrap();
    let sqls = case.queries.iter().map(|q| to_sql(&case.data, now, false, q).0).collect();
    (now, sqls)
}

async fn solo_answers(env: &Env, sqls: &[String], streaming: &[bool]) -> Vec<Result<Vec<String>, String>> {
    let mut v = Vec::new();
    for (i, s) in sqls.iter().enumerate() {
        let node = Arc::new(query_node(env, false).await.expect("node"));
        v.push(run_one(node, env.metadata.clone(), s.clone(), streaming.get(i).cloned().unwrap_or(false)).await);
    }
    v
}

pub fn exec_scheduled(case: &Case) -> Outcome {
    let rt = rt_paused();
    let out = rt.block_on(async {
        let mut out = Outcome::pass();
        let (now, sqls) = prepare(case);
        let store: Arc<dyn object_store::ObjectStore> = Arc::new(object_store::memory::InMemory::new());
        let env = match ingest(store, case.data.backend, &case.data.batches(now), case.data.schema()).await {
            Ok(e) => e,
            Err(e) => {
                out.set_fail("ingest-failed", e);
                return out;
            }
        };
        let solo = solo_answers(&env, &sqls, &case.streaming).await;
        let distinct_solo = solo.iter().map(|r| format!("{:?}", r)).collect::<std::collections::BTreeSet<_>>().len();
        // shared node, concurrent tasks, pause point gated
        let core = SimCore::new();
        {
            let core2 = core.clone();
            cardinalsin::verif_hooks::set_pause_handler(Some(Arc::new(move |point: &'static str| {
                let core3 = core2.clone();
                let idx = QUERY_IDX.try_with(|i| *i).unwrap_or(99);
                Box::pin(async move {
                    if point == "engine:after_register" && idx != 99 {
                        let _ = core3.gated(ReqDesc { node: idx, op: OpKind::Pause, path: point.to_string(), detail: String::new() }, || async {}).await;
                    }
                })
            })));
        }
        core.set_scheduled(true);
        let node = Arc::new(query_node(&env, false).await.expect("node"));
        let results: Arc<parking_lot::Mutex<Vec<Option<Result<Vec<String>, String>>>>> = Arc::new(parking_lot::Mutex::new(vec![None; sqls.len()]));
        let mut handles = Vec::new();
        for (i, s) in sqls.iter().enumerate() {
            let node = node.clone();
            let md = env.metadata.clone();
            let s = s.clone();
            let st = case.streaming.get(i).cloned().unwrap_or(false);
            let results = results.clone();
            handles.push(tokio::spawn(QUERY_IDX.scope(i as u32, async move {
                let r = run_one(node, md, s, st).await;
                results.lock()[i] = Some(r);
            })));
        }
        let run = drive_schedule(&core, &handles, &case.schedule, None, 2000).await;
        out.count("pause_points_scheduled", run.scheduled);
        if run.end != DriveEnd::Done {
            handles.iter().for_each(|h| h.abort());
            out.set_fail("queries-did-not-finish", format!("{:?}", run.end));
            return out;
        }
        for h in handles {
            let _ = h.await;
        }
        // were two queries with different solo answers both between registration and planning?
        let log = core.log();
        let mut max_parked = 0;
        let mut parked = 0i32;
        for l in &log {
            // arrival order: every pause entry is an arrival; count concurrent parks roughly by arrivals before first release
            let _ = l;
            parked += 1;
            max_parked = max_parked.max(parked);
        }
        out.nontrivial = distinct_solo >= 2 && sqls.len() >= 2;
        let got = results.lock().clone();
        for (i, (g, s)) in got.iter().zip(&solo).enumerate() {
            let g = match g {
                Some(g) => g,
                None => {
                    out.set_fail("query-task-died", format!("query {} produced no result: {}", i, take_last_panic().unwrap_or_default()));
                    return out;
                }
            };
            if g != s {
                let kind = if case.streaming.get(i).cloned().unwrap_or(false) { "streaming-historical" } else { "query" };
                out.set_fail(
                    format!("concurrent-answer-differs-from-solo:{}", kind),
                    format!("query {} ({}): {}\n alone: {:?}\n concurrently with {:?}: {:?}", i, kind, sqls[i], s.as_ref().map(|v| v.len()), sqls.iter().enumerate().filter(|(j, _)| *j != i).map(|(_, s)| s).collect::<Vec<_>>(), g.as_ref().map(|v| v.len())),
                );
                return out;
            }
        }
        out
    });
    cardinalsin::verif_hooks::set_pause_handler(None);
    out
}

/// Sampled: real multi-thread runtime, barrier start, no control over the interleaving.
pub fn exec_threads(case: &Case) -> Outcome {
    cardinalsin::verif_hooks::set_pause_handler(None);
    let rt = tokio::runtime::Builder::new_multi_thread().worker_threads(8).enable_all().build().unwrap();
    rt.block_on(async {
        let mut out = Outcome::pass();
        let (now, sqls) = prepare(case);
        let store: Arc<dyn object_store::ObjectStore> = Arc::new(object_store::memory::InMemory::new());
        let env = match ingest(store, case.data.backend, &case.data.batches(now), case.data.schema()).await {
            Ok(e) => e,
            Err(e) => {
                out.set_fail("ingest-failed", e);
                return out;
            }
        };
        let solo = solo_answers(&env, &sqls, &case.streaming).await;
        out.nontrivial = solo.iter().map(|r| format!("{:?}", r)).collect::<std::collections::BTreeSet<_>>().len() >= 2;
        let node = Arc::new(query_node(&env, false).await.expect("node"));
        for round in 0..30 {
            let barrier = Arc::new(tokio::sync::Barrier::new(sqls.len()));
            let mut hs = Vec::new();
            for (i, s) in sqls.iter().enumerate() {
                let (node, md, s, b) = (node.clone(), env.metadata.clone(), s.clone(), barrier.clone());
                let st = case.streaming.get(i).cloned().unwrap_or(false);
                hs.push(tokio::spawn(async move {
                    b.wait().await;
                    run_one(node, md, s, st).await
                }));
            }
            for (i, h) in hs.into_iter().enumerate() {
                match h.await {
                    Ok(r) => {
                        if r != solo[i] {
                            out.set_fail("concurrent-answer-differs-from-solo:threads", format!("round {}: query {} ({}) alone {:?} rows, concurrently {:?} rows", round, i, sqls[i], solo[i].as_ref().map(|v| v.len()), r.as_ref().map(|v| v.len())));
                            return out;
                        }
                    }
                    Err(_) => {
                        out.set_fail("query-task-died", format!("round {} query {}", round, i));
                        return out;
                    }
                }
            }
        }
        out
    })
}

fn simple_query() -> impl Strategy<Value = Query> {
    (any::<u16>(), any::<u16>(), prop_oneof![3 => Just(Rest::None), 1 => (0u8..4).prop_map(Rest::HostEq), 1 => (0u8..3).prop_map(Rest::MetricEq)], prop_oneof![2 => Just(Proj::Star), 1 => Just(Proj::CountStar), 1 => (0u8..5, 0u8..3).prop_map(|(f, group)| Proj::Agg { f, group })]).prop_map(|(a, b, rest, proj)| {
        let (lo, hi) = if a <= b { (a, b) } else { (b, a) };
        Query { win: Win::Range { lo: Bound { minute: lo, adj: 0, style: 0 }, lo_strict: false, lo_rev: false, hi: Bound { minute: hi, adj: 0, style: 0 }, hi_strict: false, hi_rev: false }, rest, proj, abandoned_after: None }
    })
}

fn strategy(_t: Tier) -> BoxedStrategy<Case> {
    (dataset(30).prop_map(|mut d| {
        d.span_h = 5; // six hours of data: disjoint windows select different chunk sets
        d
    }), prop::collection::vec(simple_query(), 2..5), prop::collection::vec(prop::bool::weighted(0.25), 4), prop::collection::vec(any::<u16>(), 0..24))
        .prop_map(|(data, queries, streaming, schedule)| Case { data, queries, streaming, schedule })
        .boxed()
}

pub fn def() -> PropDef {
    PropDef {
        id: "C10",
        level: "exploration",
        rule: "datasets of 4-30 rows over six hours in 1-6 chunks; 2-4 concurrent queries (QueryNode::query, or the streaming executor's historical phase) with generated disjoint / nested / equal windows, label / metric predicates and projections / aggregates on one query node; scheduled: a generated schedule decides the order in which the tasks pass the pause point between table registration and statement planning (current_thread runtime, virtual clock); threads (sampled): the same queries started behind a barrier on an 8-worker runtime, 30 rounds. Oracle: each concurrent answer == the answer of the same query run alone on a fresh node. Non-trivial = at least two of the queries have different solo answers.",
        assumptions: &["the solo answer is the specification (its equality with a full scan is C04)", "real-thread interleavings are only sampled"],
        subs: || {
            vec![
                Box::new(Sub::<Case> { name: "scheduled", cases: |t| t.scale(1_500, 8), strategy, exec: exec_scheduled }),
                Box::new(Sub::<Case> { name: "threads", cases: |t| t.pick(24, 300), strategy, exec: exec_threads }),
            ]
        },
    }
}
