//! C10 — concurrent queries do not affect each other's results.
//!
//! One `QueryNode`; 2-4 queries with different windows / predicates run as
//! concurrent tasks; the scheduler owns the interleaving at the pause point
//! between table registration and statement planning.  Oracle: every
//! concurrent answer equals the answer of the same query run alone on a fresh
//! node.  A sampled variant runs on a real multi-thread runtime.

use crate::core::*;
use crate::props::c04::{to_sql, Proj, Query, Rest, Win, Bound};
use crate::qenv::*;
use crate::sim::*;
use crate::util::*;
use cardinalsin::query::StreamingQueryExecutor;
use proptest::prelude::*;
use serde::{Deserialize, Serialize};
use std::sync::Arc;

tokio::task_local! {
    static QUERY_IDX: u32;
}

#[derive(Clone, Debug, Serialize, Deserialize)]
pub struct Case {
    pub data: Dataset,
    pub queries: Vec<Query>,
    /// which queries go through the streaming executor's historical phase
    pub streaming: Vec<bool>,
    pub schedule: Vec<u16>,
}

async fn run_one(node: Arc<cardinalsin::query::QueryNode>, env_md: Arc<dyn cardinalsin::metadata::MetadataClient>, sql: String, streaming: bool) -> Result<Vec<String>, String> {
    if streaming {
        let chan = cardinalsin::ingester::BroadcastChannel::new(8);
        let ex = StreamingQueryExecutor::new(node.engine.clone(), env_md, chan.subscribe());
        let mut rx = ex.execute(&sql).await.map_err(|e| format!("{:?}", e))?;
        drop(chan); // closes the live phase
        let mut out = Vec::new();
        while let Some(b) = rx.recv().await {
            out.push(b.map_err(|e| format!("{:?}", e))?);
        }
        Ok(result_rows(&out))
    } else {
        node.query(&sql).await.map(|b| result_rows(&b)).map_err(|e| format!("{:?}", e))
    }
}

fn prepare(case: &Case) -> (i64, Vec<String>) {
    let now = chrono::Utc::now().timestamp_nanos_opt().unwrap();
    let sqls = case.queries.iter().map(|q| to_sql(&case.data, now, false, q).0).collect();
    (now, sqls)
}

async fn solo_answers(env: &Env, sqls: &[String], streaming: &[bool]) -> Vec<Result<Vec<String>, String>> {
    let mut v = Vec::new();
    for (i, s) in sqls.iter().enumerate() {
        let node = Arc::new(query_node(env, false).await.expect("node"));
        v.push(run_one(node, env.metadata.clone(), s.clone(), streaming.get(i).cloned().unwrap_or(false)).await);
    }
    v
}

pub fn exec_scheduled(case: &Case) -> Outcome {
    let rt = rt_paused();
    let out = rt.block_on(async {
        let mut out = Outcome::pass();
        let (now, sqls) = prepare(case);
        let store: Arc<dyn object_store::ObjectStore> = Arc::new(object_store::memory::InMemory::new());
        let env = match ingest(store, case.data.backend, &case.data.batches(now), case.data.schema()).await {
            Ok(e) => e,
            Err(e) => {
                out.set_fail("ingest-failed", e);
                return out;
            }
        };
        let solo = solo_answers(&env, &sqls, &case.streaming).await;
        let distinct_solo = solo.iter().map(|r| format!("{:?}", r)).collect::<std::collections::BTreeSet<_>>().len();
        // shared node, concurrent tasks, pause point gated
        let core = SimCore::new();
        {
            let core2 = core.clone();
            cardinalsin::verif_hooks::set_pause_handler(Some(Arc::new(move |point: &'static str| {
                let core3 = core2.clone();
                let idx = QUERY_IDX.try_with(|i| *i).unwrap_or(99);
                Box::pin(async move {
                    if point.starts_with("engine:") && idx != 99 {
                        let _ = core3.gated(ReqDesc { node: idx, op: OpKind::Pause, path: point.to_string(), detail: String::new() }, || async {}).await;
                    }
                })
            })));
        }
        core.set_scheduled(true);
        let node = Arc::new(query_node(&env, false).await.expect("node"));
        let results: Arc<parking_lot::Mutex<Vec<Option<Result<Vec<String>, String>>>>> = Arc::new(parking_lot::Mutex::new(vec![None; sqls.len()]));
        let mut handles = Vec::new();
        for (i, s) in sqls.iter().enumerate() {
            let node = node.clone();
            let md = env.metadata.clone();
            let s = s.clone();
            let st = case.streaming.get(i).cloned().unwrap_or(false);
            let results = results.clone();
            handles.push(tokio::spawn(QUERY_IDX.scope(i as u32, async move {
                let r = run_one(node, md, s, st).await;
                results.lock()[i] = Some(r);
            })));
        }
        let run = drive_schedule(&core, &handles, &case.schedule, None, 2000).await;
        out.count("pause_points_scheduled", run.scheduled);
        if run.end != DriveEnd::Done {
            handles.iter().for_each(|h| h.abort());
            out.set_fail("queries-did-not-finish", format!("{:?}", run.end));
            return out;
        }
        for h in handles {
            let _ = h.await;
        }
        // were two queries with different solo answers both between registration and planning?
        let log = core.log();
        let mut max_parked = 0;
        let mut parked = 0i32;
        for l in &log {
            // arrival order: every pause entry is an arrival; count concurrent parks roughly by arrivals before first release
            let _ = l;
            parked += 1;
            max_parked = max_parked.max(parked);
        }
        out.nontrivial = distinct_solo >= 2 && sqls.len() >= 2;
        let got = results.lock().clone();
        for (i, (g, s)) in got.iter().zip(&solo).enumerate() {
            let g = match g {
                Some(g) => g,
                None => {
                    out.set_fail("query-task-died", format!("query {} produced no result: {}", i, take_last_panic().unwrap_or_default()));
                    return out;
                }
            };
            if g != s {
                let kind = if case.streaming.get(i).cloned().unwrap_or(false) { "streaming-historical" } else { "query" };
                out.set_fail(
                    format!("concurrent-answer-differs-from-solo:{}", kind),
                    format!("query {} ({}): {}\n alone: {:?}\n concurrently with {:?}: {:?}", i, kind, sqls[i], s.as_ref().map(|v| v.len()), sqls.iter().enumerate().filter(|(j, _)| *j != i).map(|(_, s)| s).collect::<Vec<_>>(), g.as_ref().map(|v| v.len())),
                );
                return out;
            }
        }
        out
    });
    cardinalsin::verif_hooks::set_pause_handler(None);
    out
}

/// Sampled: real multi-thread runtime, barrier start, no control over the interleaving.
pub fn exec_threads(case: &Case) -> Outcome {
    cardinalsin::verif_hooks::set_pause_handler(None);
    let rt = tokio::runtime::Builder::new_multi_thread().worker_threads(8).enable_all().build().unwrap();
    rt.block_on(async {
        let mut out = Outcome::pass();
        let (now, sqls) = prepare(case);
        let store: Arc<dyn object_store::ObjectStore> = Arc::new(object_store::memory::InMemory::new());
        let env = match ingest(store, case.data.backend, &case.data.batches(now), case.data.schema()).await {
            Ok(e) => e,
            Err(e) => {
                out.set_fail("ingest-failed", e);
                return out;
            }
        };
        let solo = solo_answers(&env, &sqls, &case.streaming).await;
        out.nontrivial = solo.iter().map(|r| format!("{:?}", r)).collect::<std::collections::BTreeSet<_>>().len() >= 2;
        let node = Arc::new(query_node(&env, false).await.expect("node"));
        for round in 0..30 {
            let barrier = Arc::new(tokio::sync::Barrier::new(sqls.len()));
            let mut hs = Vec::new();
            for (i, s) in sqls.iter().enumerate() {
                let (node, md, s, b) = (node.clone(), env.metadata.clone(), s.clone(), barrier.clone());
                let st = case.streaming.get(i).cloned().unwrap_or(false);
                hs.push(tokio::spawn(async move {
                    b.wait().await;
                    run_one(node, md, s, st).await
                }));
            }
            for (i, h) in hs.into_iter().enumerate() {
                match h.await {
                    Ok(r) => {
                        if r != solo[i] {
                            out.set_fail("concurrent-answer-differs-from-solo:threads", format!("round {}: query {} ({}) alone {:?} rows, concurrently {:?} rows", round, i, sqls[i], solo[i].as_ref().map(|v| v.len()), r.as_ref().map(|v| v.len())));
                            return out;
                        }
                    }
                    Err(_) => {
                        out.set_fail("query-task-died", format!("round {} query {}", round, i));
                        return out;
                    }
                }
            }
        }
        out
    })
}

// ---- the node's own entry points, sequences per client, subscriptions that stay live ------------------

/// One request of a client: `mode` 0 = QueryNode::query, 1 = QueryNode::query_stream (the
/// subscription stays open until every client is done: its historical phase is what is
/// compared), 2 = QueryNode::query_for_tenant under another tenant, 3 = the Flight SQL service
/// (get_flight_info, then do_get with the ticket it returned; only on a warmed node - see `warm` -
/// otherwise it runs as mode 0).
#[derive(Clone, Debug, Serialize, Deserialize)]
pub struct Step {
    pub client: u8,
    pub query: u8,
    pub mode: u8,
}

#[derive(Clone, Debug, Serialize, Deserialize)]
pub struct PlanCase {
    pub data: Dataset,
    pub queries: Vec<Query>,
    pub plan: Vec<Step>,
    pub adaptive: bool,
    pub schedule: Vec<u16>,
    /// the node has answered one statement over all chunks before the plan starts (the placeholder
    /// table of a fresh node is gone; what a fresh node does with each interface is C04's business)
    #[serde(default)]
    pub warm: bool,
}

type Chan = Arc<parking_lot::Mutex<Option<cardinalsin::ingester::BroadcastChannel>>>;

async fn plan_node(env: &Env, adaptive: bool) -> (Arc<cardinalsin::query::QueryNode>, Chan) {
    let chan = cardinalsin::ingester::BroadcastChannel::new(8);
    let mut node = query_node(env, adaptive).await.expect("node");
    node.connect_broadcast(chan.subscribe());
    (Arc::new(node), Arc::new(parking_lot::Mutex::new(Some(chan))))
}

enum Pending {
    Done(Result<Vec<String>, String>),
    Live(tokio::sync::mpsc::Receiver<cardinalsin::Result<arrow_array::RecordBatch>>),
}

async fn flight_sql(node: &Arc<cardinalsin::query::QueryNode>, sql: &str) -> Result<Vec<String>, String> {
    let svc = cardinalsin::api::query::flight_sql::FlightSqlQueryService::new(node.clone());
    let info = svc.get_flight_info(sql).await.map_err(|e| format!("get_flight_info: {:?}", e))?;
    let ticket = info.endpoint.first().and_then(|e| e.ticket.clone()).ok_or("no ticket")?;
    let data = svc.do_get(&ticket).await.map_err(|e| format!("do_get: {:?}", e))?;
    let batches = arrow_flight::utils::flight_data_to_batches(&data).map_err(|e| format!("decode: {:?}", e))?;
    Ok(result_rows(&batches))
}

async fn start_step(node: &Arc<cardinalsin::query::QueryNode>, sql: &str, mode: u8) -> Pending {
    match mode % 4 {
        3 => Pending::Done(flight_sql(node, sql).await),
        1 => match node.query_stream(sql).await {
            Ok(rx) => Pending::Live(rx),
            Err(e) => Pending::Done(Err(format!("{:?}", e))),
        },
        2 => Pending::Done(node.query_for_tenant(sql, "tenant-b").await.map(|b| result_rows(&b)).map_err(|e| format!("{:?}", e))),
        _ => Pending::Done(node.query(sql).await.map(|b| result_rows(&b)).map_err(|e| format!("{:?}", e))),
    }
}

/// after the broadcast channel has been closed: what a subscription delivered
async fn finish_step(p: Pending) -> Result<Vec<String>, String> {
    match p {
        Pending::Done(r) => r,
        Pending::Live(mut rx) => {
            let mut out = Vec::new();
            while let Some(b) = rx.recv().await {
                out.push(b.map_err(|e| format!("{:?}", e))?);
            }
            Ok(result_rows(&out))
        }
    }
}

const WARM_SQL: &str = "SELECT count(*) AS n FROM metrics WHERE timestamp >= 0 AND timestamp <= 9000000000000000000";

async fn warm_up(case_ts_type: u8, node: &cardinalsin::query::QueryNode) {
    let sql = if case_ts_type % 2 == 0 { WARM_SQL.to_string() } else { "SELECT count(*) AS n FROM metrics WHERE timestamp >= TIMESTAMP '1971-01-01T00:00:00Z' AND timestamp <= TIMESTAMP '2200-01-01T00:00:00Z'".to_string() };
    let _ = node.query(&sql).await;
}

/// mode as executed: Flight SQL only on a warmed node
fn eff_mode(case: &PlanCase, mode: u8) -> u8 {
    let m = mode % 4;
    if m == 3 && !case.warm {
        0
    } else {
        m
    }
}

async fn plan_solo(case: &PlanCase, env: &Env, sql: &str, mode: u8) -> Result<Vec<String>, String> {
    let adaptive = case.adaptive;
    let (node, chan) = plan_node(env, adaptive).await;
    if case.warm {
        warm_up(case.data.ts_type, &node).await;
    }
    let p = start_step(&node, sql, mode).await;
    chan.lock().take();
    finish_step(p).await
}

/// client tasks for a plan on one shared node; results[i] = answer of plan step i
fn spawn_plan(case: &PlanCase, sqls: &[String], node: Arc<cardinalsin::query::QueryNode>, chan: Chan, results: Arc<parking_lot::Mutex<Vec<Option<Result<Vec<String>, String>>>>>) -> Vec<tokio::task::JoinHandle<()>> {
    let clients: std::collections::BTreeSet<u8> = case.plan.iter().map(|s| s.client % 4).collect();
    let barrier = Arc::new(tokio::sync::Barrier::new(clients.len()));
    let mut handles = Vec::new();
    for c in clients {
        let steps: Vec<(usize, String, u8)> = case.plan.iter().enumerate().filter(|(_, s)| s.client % 4 == c).map(|(i, s)| (i, sqls[s.query as usize % sqls.len()].clone(), eff_mode(case, s.mode))).collect();
        let (node, chan, results, barrier) = (node.clone(), chan.clone(), results.clone(), barrier.clone());
        handles.push(tokio::spawn(QUERY_IDX.scope(c as u32, async move {
            let mut pend = Vec::new();
            for (i, sql, mode) in steps {
                pend.push((i, start_step(&node, &sql, mode).await));
            }
            // every client has issued all its requests: the ingester side goes away, live phases end
            barrier.wait().await;
            chan.lock().take();
            for (i, p) in pend {
                let r = finish_step(p).await;
                results.lock()[i] = Some(r);
            }
        })));
    }
    handles
}

fn judge_plan(case: &PlanCase, sqls: &[String], solo: &std::collections::BTreeMap<(usize, u8), Result<Vec<String>, String>>, got: &[Option<Result<Vec<String>, String>>], out: &mut Outcome) {
    for (i, st) in case.plan.iter().enumerate() {
        let qi = st.query as usize % sqls.len();
        let s = &solo[&(qi, eff_mode(case, st.mode))];
        let g = match &got[i] {
            Some(g) => g,
            None => {
                out.set_fail("query-task-died", format!("step {} produced no result: {}", i, take_last_panic().unwrap_or_default()));
                return;
            }
        };
        if g != s {
            let kind = ["query", "subscription-historical", "query-for-tenant", "flight-sql"][eff_mode(case, st.mode) as usize];
            out.set_fail(
                format!("concurrent-answer-differs-from-solo:{}", kind),
                format!("step {} (client {}, {}): {}\n alone: {:?}\n among the other requests of the plan {:?}: {:?}", i, st.client % 4, kind, sqls[qi], s.as_ref().map(|v| v.len()).map_err(|e| e.clone()), case.plan, g.as_ref().map(|v| v.len()).map_err(|e| e.clone())),
            );
            return;
        }
    }
}

async fn plan_prepare(case: &PlanCase, out: &mut Outcome) -> Option<(Env, Vec<String>, std::collections::BTreeMap<(usize, u8), Result<Vec<String>, String>>)> {
    let now = chrono::Utc::now().timestamp_nanos_opt().unwrap();
    let sqls: Vec<String> = case.queries.iter().map(|q| to_sql(&case.data, now, false, q).0).collect();
    let store: Arc<dyn object_store::ObjectStore> = Arc::new(object_store::memory::InMemory::new());
    let env = match ingest(store, case.data.backend, &case.data.batches(now), case.data.schema()).await {
        Ok(e) => e,
        Err(e) => {
            out.set_fail("ingest-failed", e);
            return None;
        }
    };
    let mut solo = std::collections::BTreeMap::new();
    for st in &case.plan {
        let qi = st.query as usize % sqls.len();
        let m = eff_mode(case, st.mode);
        if !solo.contains_key(&(qi, m)) {
            let r = plan_solo(case, &env, &sqls[qi], m).await;
            solo.insert((qi, m), r);
        }
    }
    let distinct = solo.values().map(|r| format!("{:?}", r)).collect::<std::collections::BTreeSet<_>>().len();
    let clients: std::collections::BTreeSet<u8> = case.plan.iter().map(|s| s.client % 4).collect();
    out.nontrivial = distinct >= 2 && case.plan.len() >= 2;
    if case.plan.iter().any(|s| eff_mode(case, s.mode) == 3) {
        out.class("flight-sql-step");
    }
    if case.plan.iter().any(|s| eff_mode(case, s.mode) == 1) && case.plan.iter().any(|s| eff_mode(case, s.mode) != 1) {
        out.class("subscription-among-queries");
    }
    if clients.len() >= 2 {
        out.class("several-clients");
    }
    // the same statement issued again after another one selected other chunks
    for (i, a) in case.plan.iter().enumerate() {
        if case.plan[..i].iter().any(|b| b.query as usize % sqls.len() == a.query as usize % sqls.len()) {
            out.class("statement-repeated");
            break;
        }
    }
    Some((env, sqls, solo))
}

pub fn exec_plan_scheduled(case: &PlanCase) -> Outcome {
    let rt = rt_paused();
    let out = rt.block_on(async {
        let mut out = Outcome::pass();
        let (env, sqls, solo) = match plan_prepare(case, &mut out).await {
            Some(x) => x,
            None => return out,
        };
        let core = SimCore::new();
        {
            let core2 = core.clone();
            cardinalsin::verif_hooks::set_pause_handler(Some(Arc::new(move |point: &'static str| {
                let core3 = core2.clone();
                let idx = QUERY_IDX.try_with(|i| *i).unwrap_or(99);
                Box::pin(async move {
                    if point.starts_with("engine:") && idx != 99 {
                        let _ = core3.gated(ReqDesc { node: idx, op: OpKind::Pause, path: point.to_string(), detail: String::new() }, || async {}).await;
                    }
                })
            })));
        }
        core.set_scheduled(true);
        let (node, chan) = plan_node(&env, case.adaptive).await;
        if case.warm {
            core.set_scheduled(false);
            warm_up(case.data.ts_type, &node).await;
            core.set_scheduled(true);
        }
        let results = Arc::new(parking_lot::Mutex::new(vec![None; case.plan.len()]));
        let handles = spawn_plan(case, &sqls, node, chan, results.clone());
        let run = drive_schedule(&core, &handles, &case.schedule, None, 4000).await;
        out.count("pause_points_scheduled", run.scheduled);
        if run.end != DriveEnd::Done {
            handles.iter().for_each(|h| h.abort());
            out.set_fail("queries-did-not-finish", format!("{:?}", run.end));
            return out;
        }
        for h in handles {
            let _ = h.await;
        }
        let got = results.lock().clone();
        judge_plan(case, &sqls, &solo, &got, &mut out);
        out
    });
    cardinalsin::verif_hooks::set_pause_handler(None);
    out
}

/// Sampled: the same plans on an 8-worker runtime.
pub fn exec_plan_threads(case: &PlanCase) -> Outcome {
    cardinalsin::verif_hooks::set_pause_handler(None);
    let rt = tokio::runtime::Builder::new_multi_thread().worker_threads(8).enable_all().build().unwrap();
    rt.block_on(async {
        let mut out = Outcome::pass();
        let (env, sqls, solo) = match plan_prepare(case, &mut out).await {
            Some(x) => x,
            None => return out,
        };
        for _round in 0..10 {
            let (node, chan) = plan_node(&env, case.adaptive).await;
            if case.warm {
                warm_up(case.data.ts_type, &node).await;
            }
            let results = Arc::new(parking_lot::Mutex::new(vec![None; case.plan.len()]));
            let handles = spawn_plan(case, &sqls, node, chan, results.clone());
            for h in handles {
                let _ = h.await;
            }
            let got = results.lock().clone();
            judge_plan(case, &sqls, &solo, &got, &mut out);
            if out.failure.is_some() {
                return out;
            }
        }
        out
    })
}

fn plan_strategy(_t: Tier) -> BoxedStrategy<PlanCase> {
    (
        dataset(30).prop_map(|mut d| {
            d.span_h = 5;
            d
        }),
        prop::collection::vec(simple_query(), 2..4),
        prop::collection::vec((0u8..3, 0u8..4, prop_oneof![4 => Just(0u8), 3 => Just(1u8), 1 => Just(2u8), 2 => Just(3u8)]).prop_map(|(client, query, mode)| Step { client, query, mode }), 2..7),
        any::<bool>(),
        prop::collection::vec(any::<u16>(), 0..32),
        any::<bool>(),
    )
        .prop_map(|(data, queries, plan, adaptive, schedule, warm)| PlanCase { data, queries, plan, adaptive, schedule, warm })
        .boxed()
}

fn simple_query() -> impl Strategy<Value = Query> {
    (any::<u16>(), any::<u16>(), prop_oneof![3 => Just(Rest::None), 1 => (0u8..4).prop_map(Rest::HostEq), 1 => (0u8..3).prop_map(Rest::MetricEq)], prop_oneof![2 => Just(Proj::Star), 1 => Just(Proj::CountStar), 1 => (0u8..5, 0u8..3).prop_map(|(f, group)| Proj::Agg { f, group })]).prop_map(|(a, b, rest, proj)| {
        let (lo, hi) = if a <= b { (a, b) } else { (b, a) };
        Query { win: Win::Range { lo: Bound { minute: lo, adj: 0, style: 0 }, lo_strict: false, lo_rev: false, hi: Bound { minute: hi, adj: 0, style: 0 }, hi_strict: false, hi_rev: false }, rest, proj, abandoned_after: None, limit: None }
    })
}

fn strategy(_t: Tier) -> BoxedStrategy<Case> {
    (dataset(30).prop_map(|mut d| {
        d.span_h = 5; // six hours of data: disjoint windows select different chunk sets
        d
    }), prop::collection::vec(simple_query(), 2..5), prop::collection::vec(prop::bool::weighted(0.25), 4), prop::collection::vec(any::<u16>(), 0..24))
        .prop_map(|(data, queries, streaming, schedule)| Case { data, queries, streaming, schedule })
        .boxed()
}

pub fn def() -> PropDef {
    PropDef {
        id: "C10",
        level: "exploration",
        rule: "datasets of 4-30 rows over six hours in 1-6 chunks; 2-4 concurrent queries (QueryNode::query, or the streaming executor's historical phase) with generated disjoint / nested / equal windows, label / metric predicates and projections / aggregates on one query node; scheduled: a generated schedule decides the order in which the tasks pass the pause point between table registration and statement planning (current_thread runtime, virtual clock); threads (sampled): the same queries started behind a barrier on an 8-worker runtime, 30 rounds. Oracle: each concurrent answer == the answer of the same query run alone on a fresh node. Non-trivial = at least two of the queries have different solo answers. node-plans: 1-3 clients each issuing a sequence of 1-6 requests through the node's own entry points - QueryNode::query, QueryNode::query_stream (the subscription stays open until every client is done; its historical phase is compared) and QueryNode::query_for_tenant under a second tenant, the Flight SQL service (get_flight_info + do_get, on a node that has answered a statement before), adaptive indexing on or off - over 2-3 statements, so statements are repeated after other requests selected other chunks and subscriptions are live while queries run; scheduled at the engine's pause points (and sampled on 8 threads, 10 rounds).",
        assumptions: &["the solo answer is the specification (its equality with a full scan is C04)", "real-thread interleavings are only sampled"],
        subs: || {
            vec![
                Box::new(Sub::<Case> { name: "scheduled", cases: |t| t.scale(1_500, 8), strategy, exec: exec_scheduled }),
                Box::new(Sub::<Case> { name: "threads", cases: |t| t.pick(24, 300), strategy, exec: exec_threads }),
                Box::new(Sub::<PlanCase> { name: "node-plans", cases: |t| t.scale(1_500, 8), strategy: plan_strategy, exec: exec_plan_scheduled }),
                Box::new(Sub::<PlanCase> { name: "node-plans-threads", cases: |t| t.pick(24, 300), strategy: plan_strategy, exec: exec_plan_threads }),
            ]
        },
    }
}
