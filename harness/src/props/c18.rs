//! C18 — live-tail delivery matches the subscription's filter.

use crate::core::*;
use crate::qenv::{query_node, Env};
use crate::rows::*;
use crate::util::*;
use arrow_array::{ArrayRef, Float64Array, Int64Array, RecordBatch, StringArray, TimestampNanosecondArray};
use arrow_schema::{DataType, Field, Schema, SchemaRef, TimeUnit};
use cardinalsin::ingester::{BatchMetadata, BroadcastChannel, TopicBatch, TopicBroadcastChannel, TopicFilter};
use cardinalsin::metadata::LocalMetadataClient;
use cardinalsin::query::{QueryFilter, StreamingQueryExecutor};
use datafusion::datasource::MemTable;
use datafusion::prelude::SessionContext;
use proptest::prelude::*;
use serde::{Deserialize, Serialize};
use std::sync::Arc;

const HOSTS: [&str; 4] = ["a", "b", "web-1", "B"];
const METRICS: [&str; 3] = ["cpu", "mem", "disk"];

#[derive(Clone, Debug, Serialize, Deserialize)]
pub struct LRow {
    /// true = after the merge instant
    pub after: bool,
    pub metric: u8,
    pub host: Option<u8>,
    pub f: Option<i8>,
    pub i: Option<u8>,
    /// the integer value is negative
    #[serde(default)]
    pub ineg: bool,
    /// the row lies right at the merge point: exactly at it (`after`) or one nanosecond before it
    /// (only where the check knows the merge instant exactly, i.e. not through the executor)
    #[serde(default)]
    pub edge: bool,
}

#[derive(Clone, Debug, Serialize, Deserialize)]
pub struct LBatch {
    pub rows: Vec<LRow>,
    /// column layout of this flush (the ingester flushes on every schema change, so consecutive
    /// flushes may differ): 0 = the default order, 1 = an extra label column `dc` in front of `host`
    /// (labels are ordered by name on the write path), 2 = the same columns in reverse order,
    /// 3 = an extra first column
    #[serde(default)]
    pub layout: u8,
}

#[derive(Clone, Debug, Serialize, Deserialize)]
pub enum Leaf {
    Host(u8, u8),
    Metric(u8, u8),
    /// value_i64 op non-negative integer
    IntCol(u8, u8),
    /// value_f64 op float literal written with a decimal point
    FloatCol(u8, i8),
    /// separate classes (outside the core "supported forms")
    FloatColIntLit(u8, u8),
    FloatColNegLit(u8, u8),
    /// value_i64 op decimal literal of either sign in steps of 0.5 (integral and fractional)
    IntColFloatLit(u8, i8),
    /// value_i64 op negative integer
    IntColNegLit(u8, u8),
}

#[derive(Clone, Debug, Serialize, Deserialize)]
pub enum W {
    L { leaf: Leaf, rev: bool },
    And(Box<W>, Box<W>),
    Or(Box<W>, Box<W>),
}

#[derive(Clone, Debug, Serialize, Deserialize)]
pub struct Case {
    pub ts_type: u8,
    pub batches: Vec<LBatch>,
    pub w: W,
    /// how many of the batches are flushed while the executor's historical phase is still running
    /// (after it subscribed, at its first catalog call); the rest follow once execute() returned
    #[serde(default)]
    pub early: u8,
}

fn op_str(o: u8) -> &'static str {
    ["=", "<>", "<", "<=", ">", ">="][o as usize % 6]
}
fn rev_op(o: u8) -> &'static str {
    ["=", "<>", ">", ">=", "<", "<="][o as usize % 6]
}

#[derive(Default)]
struct WFlags {
    or: bool,
    rev: bool,
    int_vs_float: bool,
    neg: bool,
}

fn w_sql(w: &W, f: &mut WFlags) -> String {
    match w {
        W::L { leaf, rev } => {
            let (col, op, lit) = match leaf {
                Leaf::Host(o, h) => ("host", *o, format!("'{}'", HOSTS[*h as usize % 4])),
                Leaf::Metric(o, m) => ("metric_name", *o, format!("'{}'", METRICS[*m as usize % 3])),
                Leaf::IntCol(o, v) => ("value_i64", *o, format!("{}", v % 8)),
                Leaf::FloatCol(o, v) => ("value_f64", *o, format!("{:.2}", (*v as f64 % 12.0).abs() / 4.0)),
                Leaf::FloatColIntLit(o, v) => {
                    f.int_vs_float = true;
                    ("value_f64", *o, format!("{}", v % 4))
                }
                Leaf::FloatColNegLit(o, v) => {
                    f.neg = true;
                    ("value_f64", *o, format!("-{:.2}", (*v % 12) as f64 / 4.0))
                }
                Leaf::IntColFloatLit(o, v) => {
                    f.int_vs_float = true;
                    if *v < 0 {
                        f.neg = true;
                    }
                    ("value_i64", *o, format!("{:.1}", (*v % 16) as f64 / 2.0))
                }
                Leaf::IntColNegLit(o, v) => {
                    f.neg = true;
                    ("value_i64", *o, format!("-{}", 1 + v % 7))
                }
            };
            if *rev {
                f.rev = true;
                format!("{} {} {}", lit, rev_op(op), col)
            } else {
                format!("{} {} {}", col, op_str(op), lit)
            }
        }
        W::And(a, b) => format!("({} AND {})", w_sql(a, f), w_sql(b, f)),
        W::Or(a, b) => {
            f.or = true;
            format!("({} OR {})", w_sql(a, f), w_sql(b, f))
        }
    }
}

fn schema(ts_type: u8) -> SchemaRef {
    Arc::new(Schema::new(vec![
        if ts_type % 2 == 0 { Field::new("timestamp", DataType::Int64, false) } else { Field::new("timestamp", DataType::Timestamp(TimeUnit::Nanosecond, Some("UTC".into())), false) },
        Field::new("metric_name", DataType::Utf8, false),
        Field::new("host", DataType::Utf8, true),
        Field::new("value_f64", DataType::Float64, true),
        Field::new("value_i64", DataType::Int64, true),
        Field::new("rid", DataType::Int64, false),
    ]))
}

fn build(ts_type: u8, b: &LBatch, merge: i64, rid0: i64, exact_merge: bool) -> RecordBatch {
    let hour = 3_600_000_000_000i64;
    let ts: Vec<i64> = b
        .rows
        .iter()
        .enumerate()
        .map(|(k, r)| match (r.after, r.edge && exact_merge) {
            (true, true) => merge,
            (false, true) => merge - 1,
            (true, false) => merge + hour + k as i64,
            (false, false) => merge - hour - k as i64,
        })
        .collect();
    let cols: Vec<ArrayRef> = vec![
        if ts_type % 2 == 0 { Arc::new(Int64Array::from(ts)) as ArrayRef } else { Arc::new(TimestampNanosecondArray::from(ts).with_timezone("UTC")) as ArrayRef },
        Arc::new(StringArray::from(b.rows.iter().map(|r| METRICS[r.metric as usize % 3]).collect::<Vec<_>>())),
        Arc::new(StringArray::from(b.rows.iter().map(|r| r.host.map(|h| HOSTS[h as usize % 4])).collect::<Vec<_>>())),
        Arc::new(Float64Array::from(b.rows.iter().map(|r| r.f.map(|v| v as f64 / 4.0)).collect::<Vec<_>>())),
        Arc::new(Int64Array::from(b.rows.iter().map(|r| r.i.map(|v| if r.ineg { -((v % 8) as i64) } else { (v % 8) as i64 })).collect::<Vec<_>>())),
        Arc::new(Int64Array::from((0..b.rows.len() as i64).map(|k| rid0 + k).collect::<Vec<_>>())),
    ];
    let base = schema(ts_type);
    let mut named: Vec<(Field, ArrayRef)> = base.fields().iter().map(|f| f.as_ref().clone()).zip(cols).collect();
    // values of the extra label are taken from the other labels' value sets, so that a predicate
    // evaluated against the wrong column has something to match
    let extra = |name: &str| -> (Field, ArrayRef) { (Field::new(name, DataType::Utf8, true), Arc::new(StringArray::from(b.rows.iter().enumerate().map(|(k, r)| Some(if k % 2 == 0 { HOSTS[(r.metric as usize + k) % 4] } else { METRICS[k % 3] })).collect::<Vec<_>>())) as ArrayRef) };
    match b.layout % 4 {
        1 => named.insert(2, extra("dc")),
        2 => named.reverse(),
        3 => named.insert(0, extra("aaa")),
        _ => {}
    }
    let (fields, arrays): (Vec<Field>, Vec<ArrayRef>) = named.into_iter().unzip();
    RecordBatch::try_new(Arc::new(Schema::new(fields)), arrays).unwrap()
}

/// rids selected by DataFusion's evaluation of the WHERE clause on one batch
async fn reference_rids(batch: &RecordBatch, where_sql: &str) -> Result<Vec<i64>, String> {
    let ctx = SessionContext::new();
    let t = MemTable::try_new(batch.schema(), vec![vec![batch.clone()]]).map_err(|e| e.to_string())?;
    ctx.register_table("metrics", Arc::new(t)).map_err(|e| e.to_string())?;
    let df = ctx.sql(&format!("SELECT rid FROM metrics WHERE {} ORDER BY rid", where_sql)).await.map_err(|e| e.to_string())?;
    let out = df.collect().await.map_err(|e| e.to_string())?;
    Ok(rids(&out))
}

fn sig_tags(f: &WFlags) -> String {
    let mut t = Vec::new();
    if f.or {
        t.push("or");
    }
    if f.rev {
        t.push("reversed");
    }
    if f.int_vs_float {
        t.push("int-literal-vs-float-column");
    }
    if f.neg {
        t.push("negative-literal");
    }
    if t.is_empty() {
        "plain".into()
    } else {
        t.join("+")
    }
}

/// expected delivered rids per batch (rows at/after merge that satisfy WHERE)
async fn expected(case: &Case, merge: i64, where_sql: &str, exact_merge: bool) -> Result<(Vec<RecordBatch>, Vec<Vec<i64>>), String> {
    let mut rid = 0i64;
    let mut batches = Vec::new();
    let mut exp = Vec::new();
    for b in &case.batches {
        let rb = build(case.ts_type, b, merge, rid, exact_merge);
        let sel = reference_rids(&rb, where_sql).await?;
        let after: Vec<i64> = b.rows.iter().enumerate().filter(|(_, r)| r.after).map(|(k, _)| rid + k as i64).collect();
        exp.push(sel.into_iter().filter(|r| after.contains(r)).collect());
        rid += b.rows.len() as i64;
        batches.push(rb);
    }
    Ok((batches, exp))
}

fn classify(case: &Case, f: &WFlags, exp: &[Vec<i64>], out: &mut Outcome) {
    let mixed = case.batches.iter().zip(exp).any(|(b, e)| !e.is_empty() && e.len() < b.rows.len());
    out.nontrivial = (f.or || f.rev) && mixed;
    if f.or {
        out.class("where:or");
    }
    if f.rev {
        out.class("where:reversed-operands");
    }
    if f.int_vs_float {
        out.class("where:int-literal-vs-float-column");
    }
    if f.neg {
        out.class("where:negative-literal");
    }
    if mixed {
        out.class("batch-with-matching-and-non-matching-rows");
    }
    if case.batches.iter().any(|b| b.rows.iter().any(|r| r.edge)) {
        out.class("rows-exactly-at-or-one-ns-before-the-merge-point");
    }
    if case.batches.windows(2).any(|w| w[0].layout % 4 != w[1].layout % 4) {
        out.class("column-layout-changes-between-flushes");
    }
}

pub fn exec_direct(case: &Case) -> Outcome {
    let rt = rt_plain();
    rt.block_on(async {
        let mut out = Outcome::pass();
        let mut f = WFlags::default();
        let where_sql = w_sql(&case.w, &mut f);
        let sql = format!("SELECT * FROM metrics WHERE {}", where_sql);
        let merge = 1_700_000_000_000_000_000i64;
        let (batches, exp) = match expected(case, merge, &where_sql, true).await {
            Ok(x) => x,
            Err(e) => {
                out.class("reference-error");
                let _ = e;
                return out;
            }
        };
        classify(case, &f, &exp, &mut out);
        let filter = QueryFilter::from_sql(&sql);
        for (bi, (rb, want)) in batches.iter().zip(&exp).enumerate() {
            let got: Vec<i64> = match filter.apply(rb, merge) {
                Ok(Some(b)) => rids(&[b]),
                Ok(None) => vec![],
                Err(e) => {
                    out.set_fail(format!("apply-error:{}", sig_tags(&f)), format!("{}: {:?}", sql, e));
                    return out;
                }
            };
            if &got != want {
                let what = if got.len() < want.len() || want.iter().any(|r| !got.contains(r)) { "rows-not-delivered" } else { "rows-delivered-that-do-not-match" };
                out.set_fail(format!("{}:{}", what, sig_tags(&f)), format!("{}\n batch {}: expected rids {:?}, delivered {:?}", sql, bi, want, got));
                return out;
            }
        }
        out
    })
}

pub fn exec_executor(case: &Case) -> Outcome {
    let rt = rt_plain();
    rt.block_on(async {
        let mut out = Outcome::pass();
        let mut f = WFlags::default();
        let where_sql = w_sql(&case.w, &mut f);
        let sql = format!("SELECT * FROM metrics WHERE {}", where_sql);
        let store: Arc<dyn object_store::ObjectStore> = Arc::new(object_store::memory::InMemory::new());
        let env = Env { store, metadata: Arc::new(LocalMetadataClient::new()), all: vec![], schema: schema(case.ts_type) };
        let node = match query_node(&env, false).await {
            Ok(n) => n,
            Err(e) => {
                out.set_fail("query-node-failed", e);
                return out;
            }
        };
        let use_topic = case.ts_type >= 2;
        let chan = BroadcastChannel::new(256);
        let tchan = TopicBroadcastChannel::new(256);
        let before = chrono::Utc::now().timestamp_nanos_opt().unwrap();
        let merge = before; // rows are +-1 h away from the merge instant: the exact value does not matter
        let (batches, exp) = match expected(case, merge, &where_sql, false).await {
            Ok(x) => x,
            Err(_) => {
                out.class("reference-error");
                return out;
            }
        };
        classify(case, &f, &exp, &mut out);
        out.class(if use_topic { "channel:topic" } else { "channel:broadcast" });
        let send = |rb: &RecordBatch| {
            if use_topic {
                let _ = tchan.send(TopicBatch { batch: rb.clone(), metadata: BatchMetadata { shard_id: "s".into(), tenant_id: 0, metrics: vec![] } });
            } else {
                let _ = chan.send(rb.clone());
            }
        };
        // the executor's catalog calls go through a gate, so that batches can be flushed while its
        // historical phase is under way (after it subscribed, before it switches to the live phase)
        let core = crate::sim::SimCore::new();
        let gated_md: Arc<dyn cardinalsin::metadata::MetadataClient> = Arc::new(crate::simmeta::SimMetadata::new(1, core.clone(), Arc::new(LocalMetadataClient::new())));
        let n_early = case.early as usize % (batches.len() + 1);
        let exec = if use_topic {
            let frx = tchan.subscribe(TopicFilter::All).await;
            StreamingQueryExecutor::new_filtered(node.engine.clone(), gated_md, frx)
        } else {
            StreamingQueryExecutor::new(node.engine.clone(), gated_md, chan.subscribe())
        };
        core.set_scheduled(true);
        let sql2 = sql.clone();
        let task = tokio::spawn(async move { exec.execute(&sql2).await });
        let mut early_sent = false;
        let mut idle = 0;
        loop {
            crate::sim::quiesce().await;
            if task.is_finished() {
                break;
            }
            let pend = core.pending();
            if pend.is_empty() {
                idle += 1;
                if idle > 2000 {
                    out.set_fail("subscribe-hangs", sql.clone());
                    return out;
                }
                tokio::time::sleep(std::time::Duration::from_millis(1)).await;
                continue;
            }
            if !early_sent {
                for rb in &batches[..n_early] {
                    send(rb);
                }
                early_sent = true;
                if n_early > 0 {
                    out.class("batches-flushed-during-the-historical-phase");
                }
            }
            core.release(pend[0].id, crate::sim::Decision::Proceed);
        }
        core.set_scheduled(false);
        let rx = match task.await {
            Ok(r) => r,
            Err(_) => {
                out.set_fail("executor-panic", take_last_panic().unwrap_or_default());
                return out;
            }
        };
        let mut rx = match rx {
            Ok(r) => r,
            Err(e) => {
                out.set_fail(format!("subscribe-error:{}", sig_tags(&f)), format!("{}: {:?}", sql, e));
                return out;
            }
        };
        let from = if early_sent { n_early } else { 0 };
        for rb in &batches[from..] {
            send(rb);
        }
        let mut got: Vec<i64> = Vec::new();
        loop {
            match tokio::time::timeout(std::time::Duration::from_millis(60), rx.recv()).await {
                Ok(Some(Ok(b))) => got.extend(rids(&[b])),
                Ok(Some(Err(e))) => {
                    out.set_fail(format!("stream-error:{}", sig_tags(&f)), format!("{}: {:?}", sql, e));
                    return out;
                }
                _ => break,
            }
        }
        let want: Vec<i64> = exp.into_iter().flatten().collect();
        if got != want {
            let what = if want.iter().any(|r| !got.contains(r)) {
                "rows-not-delivered"
            } else if got.iter().any(|r| !want.contains(r)) {
                "rows-delivered-that-do-not-match"
            } else {
                "order-or-multiplicity-wrong"
            };
            out.set_fail(format!("{}:{}", what, sig_tags(&f)), format!("{}\n expected rids (flush order) {:?}, delivered {:?}", sql, want, got));
        }
        out
    })
}

// ---- topic filters ------------------------------------------------------------

#[derive(Clone, Debug, Serialize, Deserialize)]
pub enum TF {
    All,
    Shard(u8),
    Tenant(u8),
    Metrics(Vec<u8>),
    And(Vec<TF>),
    Or(Vec<TF>),
}

#[derive(Clone, Debug, Serialize, Deserialize)]
pub struct TBatch {
    pub shard: u8,
    pub tenant: u8,
    pub metrics: Vec<u8>,
}

#[derive(Clone, Debug, Serialize, Deserialize)]
pub struct TopicCase {
    pub filter: TF,
    pub batches: Vec<TBatch>,
}

fn to_filter(t: &TF) -> TopicFilter {
    match t {
        TF::All => TopicFilter::All,
        TF::Shard(s) => TopicFilter::Shard(format!("shard-{}", s % 3)),
        TF::Tenant(t) => TopicFilter::Tenant((*t % 3) as u32),
        TF::Metrics(ms) => TopicFilter::Metrics(ms.iter().map(|m| METRICS[*m as usize % 3].to_string()).collect()),
        TF::And(v) => TopicFilter::And(v.iter().map(to_filter).collect()),
        TF::Or(v) => TopicFilter::Or(v.iter().map(to_filter).collect()),
    }
}

/// independent interpreter of the filter semantics
fn accepts(t: &TF, b: &TBatch) -> bool {
    match t {
        TF::All => true,
        TF::Shard(s) => s % 3 == b.shard % 3,
        TF::Tenant(x) => x % 3 == b.tenant % 3,
        TF::Metrics(ms) => b.metrics.iter().any(|m| ms.iter().any(|f| f % 3 == m % 3)),
        TF::And(v) => v.iter().all(|f| accepts(f, b)),
        TF::Or(v) => v.iter().any(|f| accepts(f, b)),
    }
}

pub fn exec_topic(case: &TopicCase) -> Outcome {
    let rt = rt_plain();
    rt.block_on(async {
        let mut out = Outcome::pass();
        let chan = TopicBroadcastChannel::new(256);
        let mut rx = chan.subscribe(to_filter(&case.filter)).await;
        let mut want = Vec::new();
        for (i, b) in case.batches.iter().enumerate() {
            let rb = RecordBatch::try_new(Arc::new(Schema::new(vec![Field::new("rid", DataType::Int64, false)])), vec![Arc::new(Int64Array::from(vec![i as i64])) as ArrayRef]).unwrap();
            let mut ms: Vec<String> = b.metrics.iter().map(|m| METRICS[*m as usize % 3].to_string()).collect();
            ms.dedup();
            let _ = chan.send(TopicBatch { batch: rb, metadata: BatchMetadata { shard_id: format!("shard-{}", b.shard % 3), tenant_id: (b.tenant % 3) as u32, metrics: ms } });
            if accepts(&case.filter, b) {
                want.push(i as i64);
            }
        }
        let mut got = Vec::new();
        loop {
            match tokio::time::timeout(std::time::Duration::from_millis(5), rx.recv()).await {
                Ok(Ok(b)) => got.extend(rids(&[b])),
                _ => break,
            }
        }
        out.nontrivial = !want.is_empty() && want.len() < case.batches.len();
        if got != want {
            out.set_fail(if want.iter().any(|r| !got.contains(r)) { "topic:matching-batch-not-delivered" } else { "topic:non-matching-batch-delivered" }, format!("filter {:?}: expected batches {:?}, delivered {:?}", to_filter(&case.filter), want, got));
        }
        out
    })
}

// ---- generators ------------------------------------------------------------------

fn lrow() -> impl Strategy<Value = LRow> {
    (prop::bool::weighted(0.7), 0u8..3, prop::option::weighted(0.85, 0u8..4), prop::option::weighted(0.85, -12i8..12), prop::option::weighted(0.85, 0u8..8), prop::bool::weighted(0.35), prop::bool::weighted(0.25)).prop_map(|(after, metric, host, f, i, ineg, edge)| LRow { after, metric, host, f, i, ineg, edge })
}

fn leaf(core_only: bool) -> BoxedStrategy<Leaf> {
    let core = prop_oneof![
        3 => (0u8..6, 0u8..4).prop_map(|(o, h)| Leaf::Host(o, h)),
        2 => (0u8..6, 0u8..3).prop_map(|(o, m)| Leaf::Metric(o, m)),
        2 => (0u8..6, 0u8..8).prop_map(|(o, v)| Leaf::IntCol(o, v)),
        2 => (0u8..6, 0i8..12).prop_map(|(o, v)| Leaf::FloatCol(o, v)),
    ];
    if core_only {
        core.boxed()
    } else {
        prop_oneof![
            2 => (0u8..6, 0u8..4).prop_map(|(o, v)| Leaf::FloatColIntLit(o, v)),
            2 => (0u8..6, 1u8..12).prop_map(|(o, v)| Leaf::FloatColNegLit(o, v)),
            3 => (0u8..6, -15i8..16).prop_map(|(o, v)| Leaf::IntColFloatLit(o, v)),
            1 => (0u8..6, 0u8..7).prop_map(|(o, v)| Leaf::IntColNegLit(o, v)),
            1 => core
        ]
        .boxed()
    }
}

fn wtree(core_only: bool) -> impl Strategy<Value = W> {
    (leaf(core_only), prop::bool::weighted(0.3)).prop_map(|(leaf, rev)| W::L { leaf, rev }).prop_recursive(3, 8, 2, |inner| {
        prop_oneof![(inner.clone(), inner.clone()).prop_map(|(a, b)| W::And(Box::new(a), Box::new(b))), (inner.clone(), inner).prop_map(|(a, b)| W::Or(Box::new(a), Box::new(b)))]
    })
}

fn case_strategy(core_only: bool, ts_types: u8) -> BoxedStrategy<Case> {
    (0u8..ts_types, prop::collection::vec((prop::collection::vec(lrow(), 1..8), prop_oneof![3 => Just(0u8), 1 => Just(1u8), 1 => Just(2u8), 1 => Just(3u8)]).prop_map(|(rows, layout)| LBatch { rows, layout }), 1..5), wtree(core_only)).prop_map(|(ts_type, batches, w)| Case { ts_type, batches, w, early: 0 }).boxed()
}

fn tf() -> impl Strategy<Value = TF> {
    let leaf = prop_oneof![1 => Just(TF::All), 2 => (0u8..3).prop_map(TF::Shard), 2 => (0u8..3).prop_map(TF::Tenant), 3 => prop::collection::vec(0u8..3, 0..3).prop_map(TF::Metrics)];
    leaf.prop_recursive(3, 10, 3, |inner| prop_oneof![prop::collection::vec(inner.clone(), 0..3).prop_map(TF::And), prop::collection::vec(inner, 0..3).prop_map(TF::Or)])
}

pub fn def() -> PropDef {
    PropDef {
        id: "C18",
        level: "exploration",
        rule: "filter-direct / executor: 1-4 broadcast batches of 1-7 rows (Int64 or Timestamp(ns,UTC) timestamps one hour before / after the merge instant, 3 metrics per batch, nullable host / value_f64 / value_i64) and a WHERE tree (depth <=3) of comparisons (=,<>,<,<=,>,>= in either operand order; string literals on host / metric_name, non-negative integers on value_i64, decimal literals on value_f64) joined by AND / OR / parentheses; oracle = DataFusion's evaluation of the same WHERE on the same batch restricted to rows at/after the merge instant, compared in flush order; executor runs on the real broadcast channel and on a FilteredReceiver; a generated prefix of the batches is flushed while the executor's historical phase is under way (its catalog calls are gated), the rest after execute() returned. literal-classes: the same with integer literals against the float column, decimal literals of either sign (integral and fractional, steps of 0.5) against the integer column, negative literals, and negative integers in the data. topic: filter trees of All / Shard / Tenant / Metrics / And / Or (incl. empty lists) vs an independent interpreter. Non-trivial = WHERE contains OR or a reversed comparison and some batch has both matching and non-matching rows (topic: some but not all batches match).",
        assumptions: &["supported forms = a column compared with a numeric or string literal, combined with AND / OR / parentheses; NULL / boolean / timestamp literals, IN, BETWEEN and NOT are outside the generated domain", "the subscriber keeps up (channel capacity 256 > batches)"],
        subs: || {
            vec![
                Box::new(Sub::<Case> { name: "filter-direct", cases: |t| t.scale(8_000, 8), strategy: |_| case_strategy(true, 2), exec: exec_direct }),
                Box::new(Sub::<Case> { name: "literal-classes", cases: |t| t.scale(4_000, 8), strategy: |_| case_strategy(false, 2), exec: exec_direct }),
                Box::new(Sub::<Case> { name: "executor", cases: |t| t.scale(1_500, 8), strategy: |_| (case_strategy(true, 4), prop_oneof![1 => Just(0u8), 2 => any::<u8>()]).prop_map(|(mut c, early)| { c.early = early; c }).boxed(), exec: exec_executor }),
                Box::new(Sub::<TopicCase> {
                    name: "topic",
                    cases: |t| t.scale(3_000, 10),
                    strategy: |_| (tf(), prop::collection::vec((0u8..3, 0u8..3, prop::collection::vec(0u8..3, 0..3)).prop_map(|(shard, tenant, metrics)| TBatch { shard, tenant, metrics }), 1..8)).prop_map(|(filter, batches)| TopicCase { filter, batches }).boxed(),
                    exec: exec_topic,
                }),
            ]
        },
    }
}
