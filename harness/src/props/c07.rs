//! C07 — time-range chunk lookup is exact, on both metadata back-ends.

use crate::core::*;
use crate::util::*;
use cardinalsin::ingester::ChunkMetadata;
use cardinalsin::metadata::{LocalMetadataClient, MetadataClient, ObjectStoreMetadataClient, ObjectStoreMetadataConfig, TimeIndexEntry, TimeRange};
use proptest::prelude::*;
use serde::{Deserialize, Serialize};
use std::collections::BTreeMap;
use std::sync::Arc;

pub const HOUR: i64 = 3_600_000_000_000;

/// a timestamp near an hour boundary: k*HOUR + d
#[derive(Clone, Debug, Serialize, Deserialize)]
pub struct Ts {
    pub k: i16,
    pub d: i8,
}
impl Ts {
    pub fn v(&self) -> i64 {
        self.k as i64 * HOUR + self.d as i64
    }
}

#[derive(Clone, Debug, Serialize, Deserialize)]
pub enum Op {
    /// register (or re-register) path with interval [a, a+len]
    Register { path: u8, a: Ts, len_h: u8, len_d: u8 },
    Delete { path: u8 },
    /// target is registered first when `register_target` (the documented protocol)
    Compact { sources: Vec<u8>, target: u8, register_target: Option<(Ts, u8)> },
    Query { a: Ts, b: Ts },
    List,
    Get { path: u8 },
}

#[derive(Clone, Debug, Serialize, Deserialize)]
pub struct Case {
    pub ops: Vec<Op>,
}

const NPATHS: u8 = 8;
fn pname(p: u8) -> String {
    format!("t/data/c{}.parquet", p % NPATHS)
}

#[derive(Clone, Debug, PartialEq)]
struct M {
    min: i64,
    max: i64,
    rows: u64,
    size: u64,
}

fn meta(path: u8, a: &Ts, len_h: u8, len_d: u8) -> ChunkMetadata {
    let min = a.v();
    let max = min + (len_h as i64 % 241) * HOUR * if len_h > 200 { 1 } else { (len_h as i64 % 4 == 0) as i64 } + match len_d % 5 {
        0 => 0,
        1 => 1,
        2 => HOUR - 1,
        3 => HOUR,
        _ => len_d as i64,
    };
    ChunkMetadata { path: pname(path), min_timestamp: min, max_timestamp: max, row_count: 1 + len_d as u64, size_bytes: 10 + len_h as u64 }
}

fn entry_key(e: &TimeIndexEntry) -> (String, i64, i64, u64, u64) {
    (e.chunk_path.clone(), e.min_timestamp, e.max_timestamp, e.row_count, e.size_bytes)
}

#[derive(Debug, Clone, PartialEq)]
enum Ans {
    Set(Vec<(String, i64, i64, u64, u64)>),
    Err(String),
    Panic(String),
}

async fn query(client: &dyn MetadataClient, start: i64, end: i64) -> Result<Vec<TimeIndexEntry>, String> {
    client.get_chunks(TimeRange::new(start, end)).await.map_err(|e| format!("{:?}", e))
}

fn run_backend(case: &Case, s3: bool) -> Vec<(usize, Ans)> {
    let rt = rt_plain();
    let mut answers = Vec::new();
    let client: Arc<dyn MetadataClient> = if s3 {
        Arc::new(ObjectStoreMetadataClient::new(Arc::new(object_store::memory::InMemory::new()), ObjectStoreMetadataConfig::default()))
    } else {
        Arc::new(LocalMetadataClient::new())
    };
    for (i, op) in case.ops.iter().enumerate() {
        let c = client.clone();
        let r = catch(|| {
            rt.block_on(async {
                match op {
                    Op::Register { path, a, len_h, len_d } => {
                        let m = meta(*path, a, *len_h, *len_d);
                        c.register_chunk(&m.path, &m).await.map(|_| Ans::Set(vec![])).unwrap_or_else(|e| Ans::Err(format!("{:?}", e)))
                    }
                    Op::Delete { path } => c.delete_chunk(&pname(*path)).await.map(|_| Ans::Set(vec![])).unwrap_or_else(|e| Ans::Err(format!("{:?}", e))),
                    Op::Compact { sources, target, register_target } => {
                        if let Some((a, l)) = register_target {
                            let m = meta(*target, a, *l, 1);
                            if let Err(e) = c.register_chunk(&m.path, &m).await {
                                return Ans::Err(format!("{:?}", e));
                            }
                        }
                        let srcs: Vec<String> = sources.iter().map(|s| pname(*s)).collect();
                        c.complete_compaction(&srcs, &pname(*target)).await.map(|_| Ans::Set(vec![])).unwrap_or_else(|_| Ans::Err("compaction refused".into()))
                    }
                    Op::Query { a, b } => match query(c.as_ref(), a.v(), b.v()).await {
                        Ok(v) => {
                            let mut k: Vec<_> = v.iter().map(entry_key).collect();
                            k.sort();
                            Ans::Set(k)
                        }
                        Err(e) => Ans::Err(e),
                    },
                    Op::List => match c.list_chunks().await {
                        Ok(v) => {
                            let mut k: Vec<_> = v.iter().map(entry_key).collect();
                            k.sort();
                            Ans::Set(k)
                        }
                        Err(e) => Ans::Err(format!("{:?}", e)),
                    },
                    Op::Get { path } => match c.get_chunk(&pname(*path)).await {
                        Ok(Some(m)) => Ans::Set(vec![(m.path.clone(), m.min_timestamp, m.max_timestamp, m.row_count, m.size_bytes)]),
                        Ok(None) => Ans::Set(vec![]),
                        Err(e) => Ans::Err(format!("{:?}", e)),
                    },
                }
            })
        });
        match r {
            Ok(a) => answers.push((i, a)),
            Err(p) => {
                answers.push((i, Ans::Panic(p)));
                break;
            }
        }
    }
    answers
}

pub fn exec(case: &Case) -> Outcome {
    let mut out = Outcome::pass();
    let local = run_backend(case, false);
    let s3 = run_backend(case, true);
    // reference model
    let mut model: BTreeMap<String, M> = BTreeMap::new();
    let mut mutated_before = false;
    for (i, op) in case.ops.iter().enumerate() {
        let la = local.iter().find(|(j, _)| *j == i).map(|(_, a)| a.clone());
        let sa = s3.iter().find(|(j, _)| *j == i).map(|(_, a)| a.clone());
        let names = [("local", &la), ("s3", &sa)];
        for (n, a) in names.iter() {
            if let Some(Ans::Panic(p)) = a {
                let inverted = matches!(op, Op::Query { a, b } if a.v() > b.v());
                out.set_fail(
                    format!("panic:{}:{}", n, if inverted { "inverted-range" } else { "other" }),
                    format!("op {} ({:?}) panicked on the {} back-end: {}", i, op, n, p.chars().take(120).collect::<String>()),
                );
                return out;
            }
            if a.is_none() {
                return out; // earlier panic already reported
            }
        }
        let la = la.unwrap();
        let sa = sa.unwrap();
        match op {
            Op::Register { path, a, len_h, len_d } => {
                let m = meta(*path, a, *len_h, *len_d);
                if model.contains_key(&m.path) {
                    out.class("re-registration");
                    mutated_before = true;
                }
                model.insert(m.path.clone(), M { min: m.min_timestamp, max: m.max_timestamp, rows: m.row_count, size: m.size_bytes });
                if (m.max_timestamp - m.min_timestamp) > HOUR {
                    out.class("multi-bucket-chunk");
                }
                if m.min_timestamp < 0 {
                    out.class("negative-ts");
                }
            }
            Op::Delete { path } => {
                if model.remove(&pname(*path)).is_some() {
                    mutated_before = true;
                }
            }
            Op::Compact { sources, target, register_target } => {
                if let Some((a, l)) = register_target {
                    let m = meta(*target, a, *l, 1);
                    model.insert(m.path.clone(), M { min: m.min_timestamp, max: m.max_timestamp, rows: m.row_count, size: m.size_bytes });
                }
                let t = pname(*target);
                let srcs: Vec<String> = sources.iter().map(|s| pname(*s)).collect();
                let applicable = model.contains_key(&t) && !srcs.contains(&t);
                if !applicable {
                    out.class("compaction-with-unknown-target");
                }
                let refused = |a: &Ans| matches!(a, Ans::Err(_));
                if applicable {
                    for s in &srcs {
                        model.remove(s);
                    }
                    mutated_before = true;
                    if refused(&la) || refused(&sa) {
                        out.set_fail("valid-compaction-refused", format!("op {}: compaction with a registered target refused (local {:?}, s3 {:?})", i, la, sa));
                        return out;
                    }
                } else {
                    // the statement fixes no behaviour for a compaction whose target is unknown,
                    // but both back-ends must treat the same history the same way
                    if refused(&la) != refused(&sa) {
                        out.set_fail(
                            "backends-disagree:unknown-compaction-target",
                            format!("op {} ({:?}): local {} the compaction, s3 {} it", i, op, if refused(&la) { "refused" } else { "accepted" }, if refused(&sa) { "refused" } else { "accepted" }),
                        );
                        return out;
                    }
                    if !refused(&la) {
                        for s in &srcs {
                            model.remove(s);
                        }
                    }
                }
            }
            Op::Query { a, b } => {
                let (start, end) = (a.v(), b.v());
                let literal: Vec<(String, i64, i64, u64, u64)> = model.iter().filter(|(_, m)| m.min <= end && m.max >= start).map(|(p, m)| (p.clone(), m.min, m.max, m.rows, m.size)).collect();
                let inverted = start > end;
                if inverted {
                    out.class("inverted-range");
                }
                for (n, ans) in [("local", &la), ("s3", &sa)] {
                    match ans {
                        Ans::Set(v) => {
                            let ok = if inverted { v.is_empty() || *v == literal } else { *v == literal };
                            if !ok {
                                let missing: Vec<&String> = literal.iter().map(|e| &e.0).filter(|p| !v.iter().any(|x| &x.0 == *p)).collect();
                                let extra: Vec<&String> = v.iter().map(|e| &e.0).filter(|p| !literal.iter().any(|x| &x.0 == *p)).collect();
                                let dup = {
                                    let mut names: Vec<&String> = v.iter().map(|e| &e.0).collect();
                                    let n0 = names.len();
                                    names.dedup();
                                    n0 != names.len()
                                };
                                let sig = if dup {
                                    "duplicate-in-answer"
                                } else if !missing.is_empty() {
                                    "overlapping-chunk-missing"
                                } else if !extra.is_empty() {
                                    "non-overlapping-or-dead-chunk-returned"
                                } else {
                                    "entry-fields-wrong"
                                };
                                out.set_fail(format!("{}:{}", n, sig), format!("op {}: get_chunks([{}, {}]) on {}: expected {:?}, got {:?}", i, start, end, n, literal, v));
                                return out;
                            }
                        }
                        Ans::Err(e) => {
                            out.set_fail(format!("{}:query-error", n), format!("op {}: get_chunks([{}, {}]) on {} failed: {}", i, start, end, n, e));
                            return out;
                        }
                        Ans::Panic(_) => unreachable!(),
                    }
                }
                if la != sa && !inverted {
                    out.set_fail("backends-disagree:query", format!("op {}: local {:?} vs s3 {:?}", i, la, sa));
                    return out;
                }
                if !inverted && mutated_before && !literal.is_empty() && literal.len() < model.len() {
                    out.nontrivial = true;
                }
            }
            Op::List => {
                let all: Vec<(String, i64, i64, u64, u64)> = model.iter().map(|(p, m)| (p.clone(), m.min, m.max, m.rows, m.size)).collect();
                for (n, ans) in [("local", &la), ("s3", &sa)] {
                    if *ans != Ans::Set(all.clone()) {
                        out.set_fail(format!("{}:list-wrong", n), format!("op {}: list_chunks on {}: expected {:?}, got {:?}", i, n, all, ans));
                        return out;
                    }
                }
            }
            Op::Get { path } => {
                let want: Vec<(String, i64, i64, u64, u64)> = model.get(&pname(*path)).map(|m| vec![(pname(*path), m.min, m.max, m.rows, m.size)]).unwrap_or_default();
                for (n, ans) in [("local", &la), ("s3", &sa)] {
                    if *ans != Ans::Set(want.clone()) {
                        out.set_fail(format!("{}:get-wrong", n), format!("op {}: get_chunk on {}: expected {:?}, got {:?}", i, n, want, ans));
                        return out;
                    }
                }
            }
        }
    }
    out
}

fn ts() -> impl Strategy<Value = Ts> {
    (prop_oneof![6 => -3i16..12, 1 => -300i16..300], prop_oneof![3 => Just(0i8), 2 => Just(-1i8), 2 => Just(1i8), 1 => any::<i8>()]).prop_map(|(k, d)| Ts { k, d })
}

fn op() -> impl Strategy<Value = Op> {
    prop_oneof![
        6 => (0u8..NPATHS, ts(), prop_oneof![4 => 0u8..8, 1 => 201u8..241], any::<u8>()).prop_map(|(path, a, len_h, len_d)| Op::Register { path, a, len_h, len_d }),
        2 => (0u8..NPATHS).prop_map(|path| Op::Delete { path }),
        2 => (prop::collection::vec(0u8..NPATHS, 1..4), 0u8..NPATHS, prop_oneof![4 => (ts(), 0u8..8).prop_map(Some), 1 => Just(None)]).prop_map(|(sources, target, register_target)| Op::Compact { sources, target, register_target }),
        8 => (ts(), ts()).prop_map(|(a, b)| if a.v() <= b.v() { Op::Query { a, b } } else { Op::Query { a: b, b: a } }),
        1 => (ts(), ts()).prop_map(|(a, b)| Op::Query { a, b }),
        1 => Just(Op::List),
        1 => (0u8..NPATHS).prop_map(|path| Op::Get { path }),
    ]
}

fn strategy(t: Tier) -> BoxedStrategy<Case> {
    prop::collection::vec(op(), 1..t.pick(30usize, 60usize)).prop_map(|ops| Case { ops }).boxed()
}

pub fn def() -> PropDef {
    PropDef {
        id: "C07",
        level: "exploration",
        rule: "histories of <=30 (thorough 60) ops over 8 paths from {register / re-register with another interval, delete, complete_compaction (target registered first, or unknown target as a separate class), get_chunks(range), list_chunks, get_chunk}; end points k*hour + {-1,0,+1,any i8} ns incl. negatives, zero-length, up to 10-day spans, inverted query ranges; applied to LocalMetadataClient and ObjectStoreMetadataClient; answers compared with a reference interval map and with each other. Non-trivial = a range query after a delete/compaction/re-registration whose expected answer is neither empty nor everything.",
        assumptions: &["for an inverted range either the empty set or the literal inequality answer is accepted; a panic, duplicates, dead chunks or disagreement on non-inverted ranges is not"],
        subs: || vec![Box::new(Sub::<Case> { name: "history", cases: |t| t.scale(250_000, 6), strategy, exec })],
    }
}
