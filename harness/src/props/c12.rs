//! C12 — statistics-based chunk pruning never excludes a matching chunk.
//!
//! Oracle: `evaluate_against_stats == false` ⇒ no point of the statistics box
//! satisfies the predicate under SQL three-valued logic.  Satisfiability over
//! the box is decided exactly by enumerating, per column, {min, max, every
//! literal, successor of every literal} ∩ [min,max] (∪ {NULL} if has_nulls);
//! truth of a comparison tree is piecewise constant between literals, so this
//! candidate set hits every region.  Columns with missing / mistyped
//! statistics are unbounded.

use crate::core::*;
use cardinalsin::metadata::{ColumnPredicate, ColumnStats, PredicateValue};
use proptest::prelude::*;
use serde::{Deserialize, Serialize};
use std::collections::HashMap;

#[derive(Clone, Debug, Serialize, Deserialize, PartialEq)]
pub enum Val {
    I(i64),
    F(f64),
    S(String),
    Null,
}

#[derive(Clone, Copy, Debug, Serialize, Deserialize, PartialEq, Eq)]
pub enum Kind {
    Int,
    Float,
    Str,
}

#[derive(Clone, Debug, Serialize, Deserialize)]
pub enum StatsMode {
    Exact,
    Missing,
    /// statistics present but of the wrong JSON type
    Mistyped(u8),
}

#[derive(Clone, Debug, Serialize, Deserialize)]
pub struct Col {
    pub kind: Kind,
    /// row values (None = NULL)
    pub rows: Vec<Option<i8>>,
    pub stats: StatsMode,
}

#[derive(Clone, Debug, Serialize, Deserialize)]
pub enum Lit {
    /// literal of the column's own kind, from the small domain
    Own(i8),
    /// numeric literal of the other numeric kind (int <-> float)
    Cross(i8),
    Null,
    Bool(bool),
}

#[derive(Clone, Debug, Serialize, Deserialize)]
pub enum P {
    Eq(u8, Lit),
    NotEq(u8, Lit),
    Lt(u8, Lit),
    LtEq(u8, Lit),
    Gt(u8, Lit),
    GtEq(u8, Lit),
    In(u8, Vec<Lit>),
    NotIn(u8, Vec<Lit>),
    Between(u8, Lit, Lit),
    And(Box<P>, Box<P>),
    Or(Box<P>, Box<P>),
    Not(Box<P>),
}

#[derive(Clone, Debug, Serialize, Deserialize)]
pub struct Case {
    pub cols: Vec<Col>,
    pub pred: P,
}

const NCOLS: usize = 3;

// ---- small value domains -------------------------------------------------

fn int_of(d: i8) -> i64 {
    // dense small domain with a few large magnitudes
    match d {
        -128..=-121 => -(1i64 << 53) + (d as i64 + 128),
        121..=127 => (1i64 << 53) - (127 - d as i64),
        // dense clusters of integers that f64 cannot tell apart (nanosecond epochs, the
        // extremes of the type): comparing them through a float is unsound
        90..=104 => 1_700_000_000_000_000_000 + (d as i64 - 97),
        105..=120 => i64::MAX - (120 - d as i64),
        -104..=-90 => -1_700_000_000_000_000_000 + (d as i64 + 97),
        -120..=-105 => i64::MIN + (d as i64 + 120),
        _ => d as i64,
    }
}
fn float_of(d: i8) -> f64 {
    match d {
        -128..=-125 => -1e300 * ((d as f64 + 129.0) / 4.0),
        125..=127 => 1e300 * ((128.0 - d as f64) / 4.0),
        // values without a short exact decimal form: a statistic that goes through a
        // best-effort decimal parser on its way into / out of the catalog moves by an ulp
        13..=60 => d as f64 / 3.0,
        -60..=-13 => d as f64 * 0.1 + 1e-9,
        _ => d as f64 / 4.0,
    }
}
fn str_of(d: i8) -> String {
    // strings whose byte order differs from numeric order of d; includes "",
    // prefixes and non-ASCII
    const T: [&str; 16] = ["", "a", "aa", "ab", "b", "ba", "cpu", "cpu0", "cpu_total", "mem", "z", "zz", "é", "A", "B", "a\u{0}"];
    T[(d as i16 + 128) as usize % T.len()].to_string()
}

fn own_val(kind: Kind, d: i8) -> Val {
    match kind {
        Kind::Int => Val::I(int_of(d)),
        Kind::Float => Val::F(float_of(d)),
        Kind::Str => Val::S(str_of(d)),
    }
}

fn lit_val(kind: Kind, l: &Lit) -> (Val, PredicateValue) {
    match l {
        Lit::Own(d) => {
            let v = own_val(kind, *d);
            let pv = match &v {
                Val::I(i) => PredicateValue::Int64(*i),
                Val::F(f) => PredicateValue::Float64(*f),
                Val::S(s) => PredicateValue::String(s.clone()),
                Val::Null => PredicateValue::Null,
            };
            (v, pv)
        }
        Lit::Cross(d) => match kind {
            Kind::Int => {
                let f = float_of(*d).clamp(-9.0e15, 9.0e15);
                (Val::F(f), PredicateValue::Float64(f))
            }
            Kind::Float => {
                let i = int_of(*d);
                (Val::I(i), PredicateValue::Int64(i))
            }
            Kind::Str => {
                let s = str_of(*d);
                (Val::S(s.clone()), PredicateValue::String(s))
            }
        },
        Lit::Null => (Val::Null, PredicateValue::Null),
        Lit::Bool(b) => (Val::Null, PredicateValue::Boolean(*b)), // semantics: unknown
    }
}

// ---- comparison under SQL semantics --------------------------------------

fn cmp(a: &Val, b: &Val) -> Option<std::cmp::Ordering> {
    match (a, b) {
        (Val::Null, _) | (_, Val::Null) => None,
        (Val::I(x), Val::I(y)) => Some(x.cmp(y)),
        (Val::F(x), Val::F(y)) => x.partial_cmp(y),
        (Val::I(x), Val::F(y)) => (*x as f64).partial_cmp(y),
        (Val::F(x), Val::I(y)) => x.partial_cmp(&(*y as f64)),
        (Val::S(x), Val::S(y)) => Some(x.as_bytes().cmp(y.as_bytes())),
        _ => None,
    }
}

#[derive(Clone, Copy, PartialEq, Eq, Debug)]
enum T3 {
    T,
    F,
    U,
}
fn t3(b: Option<bool>) -> T3 {
    match b {
        Some(true) => T3::T,
        Some(false) => T3::F,
        None => T3::U,
    }
}
fn not3(a: T3) -> T3 {
    match a {
        T3::T => T3::F,
        T3::F => T3::T,
        T3::U => T3::U,
    }
}
fn and3(a: T3, b: T3) -> T3 {
    if a == T3::F || b == T3::F {
        T3::F
    } else if a == T3::T && b == T3::T {
        T3::T
    } else {
        T3::U
    }
}
fn or3(a: T3, b: T3) -> T3 {
    if a == T3::T || b == T3::T {
        T3::T
    } else if a == T3::F && b == T3::F {
        T3::F
    } else {
        T3::U
    }
}

fn eval(p: &P, kinds: &[Kind], row: &[Val]) -> T3 {
    use std::cmp::Ordering::*;
    let c = |col: &u8, l: &Lit| -> Option<std::cmp::Ordering> {
        let i = *col as usize % NCOLS;
        if matches!(l, Lit::Bool(_)) {
            return None;
        }
        cmp(&row[i], &lit_val(kinds[i], l).0)
    };
    match p {
        P::Eq(col, l) => t3(c(col, l).map(|o| o == Equal)),
        P::NotEq(col, l) => t3(c(col, l).map(|o| o != Equal)),
        P::Lt(col, l) => t3(c(col, l).map(|o| o == Less)),
        P::LtEq(col, l) => t3(c(col, l).map(|o| o != Greater)),
        P::Gt(col, l) => t3(c(col, l).map(|o| o == Greater)),
        P::GtEq(col, l) => t3(c(col, l).map(|o| o != Less)),
        P::In(col, ls) => ls.iter().fold(T3::F, |acc, l| or3(acc, t3(c(col, l).map(|o| o == Equal)))),
        P::NotIn(col, ls) => not3(ls.iter().fold(T3::F, |acc, l| or3(acc, t3(c(col, l).map(|o| o == Equal))))),
        P::Between(col, lo, hi) => and3(t3(c(col, lo).map(|o| o != Less)), t3(c(col, hi).map(|o| o != Greater))),
        P::And(a, b) => and3(eval(a, kinds, row), eval(b, kinds, row)),
        P::Or(a, b) => or3(eval(a, kinds, row), eval(b, kinds, row)),
        P::Not(a) => not3(eval(a, kinds, row)),
    }
}

pub fn to_pred(p: &P, kinds: &[Kind]) -> ColumnPredicate {
    let name = |c: &u8| format!("c{}", *c as usize % NCOLS);
    let pv = |c: &u8, l: &Lit| lit_val(kinds[*c as usize % NCOLS], l).1;
    match p {
        P::Eq(c, l) => ColumnPredicate::Eq(name(c), pv(c, l)),
        P::NotEq(c, l) => ColumnPredicate::NotEq(name(c), pv(c, l)),
        P::Lt(c, l) => ColumnPredicate::Lt(name(c), pv(c, l)),
        P::LtEq(c, l) => ColumnPredicate::LtEq(name(c), pv(c, l)),
        P::Gt(c, l) => ColumnPredicate::Gt(name(c), pv(c, l)),
        P::GtEq(c, l) => ColumnPredicate::GtEq(name(c), pv(c, l)),
        P::In(c, ls) => ColumnPredicate::In(name(c), ls.iter().map(|l| pv(c, l)).collect()),
        P::NotIn(c, ls) => ColumnPredicate::NotIn(name(c), ls.iter().map(|l| pv(c, l)).collect()),
        P::Between(c, a, b) => ColumnPredicate::Between(name(c), pv(c, a), pv(c, b)),
        P::And(a, b) => ColumnPredicate::And(Box::new(to_pred(a, kinds)), Box::new(to_pred(b, kinds))),
        P::Or(a, b) => ColumnPredicate::Or(Box::new(to_pred(a, kinds)), Box::new(to_pred(b, kinds))),
        P::Not(a) => ColumnPredicate::Not(Box::new(to_pred(a, kinds))),
    }
}

fn literals_for(p: &P, col: usize, kinds: &[Kind], out: &mut Vec<Val>) {
    let mut push = |c: &u8, l: &Lit| {
        if *c as usize % NCOLS == col {
            let v = lit_val(kinds[col], l).0;
            if v != Val::Null {
                out.push(v);
            }
        }
    };
    match p {
        P::Eq(c, l) | P::NotEq(c, l) | P::Lt(c, l) | P::LtEq(c, l) | P::Gt(c, l) | P::GtEq(c, l) => push(c, l),
        P::In(c, ls) | P::NotIn(c, ls) => ls.iter().for_each(|l| push(c, l)),
        P::Between(c, a, b) => {
            push(c, a);
            push(c, b)
        }
        P::And(a, b) | P::Or(a, b) => {
            literals_for(a, col, kinds, out);
            literals_for(b, col, kinds, out)
        }
        P::Not(a) => literals_for(a, col, kinds, out),
    }
}

fn cols_used(p: &P, used: &mut [bool; NCOLS]) {
    match p {
        P::Eq(c, _) | P::NotEq(c, _) | P::Lt(c, _) | P::LtEq(c, _) | P::Gt(c, _) | P::GtEq(c, _) | P::In(c, _) | P::NotIn(c, _) | P::Between(c, _, _) => {
            used[*c as usize % NCOLS] = true
        }
        P::And(a, b) | P::Or(a, b) => {
            cols_used(a, used);
            cols_used(b, used)
        }
        P::Not(a) => cols_used(a, used),
    }
}

/// value of `kind` just above / below a literal (immediate neighbour in the column's own domain)
fn neighbours(kind: Kind, v: &Val) -> Vec<Val> {
    match (kind, v) {
        (Kind::Int, Val::I(i)) => vec![Val::I(i.saturating_add(1)), Val::I(i.saturating_sub(1))],
        (Kind::Int, Val::F(f)) => vec![Val::I(f.floor() as i64), Val::I(f.ceil() as i64), Val::I(f.floor() as i64 - 1), Val::I(f.ceil() as i64 + 1)],
        (Kind::Float, Val::F(f)) => vec![Val::F(next_up(*f)), Val::F(next_down(*f))],
        (Kind::Float, Val::I(i)) => {
            let f = *i as f64;
            vec![Val::F(f), Val::F(next_up(f)), Val::F(next_down(f))]
        }
        (Kind::Str, Val::S(s)) => {
            let mut up = s.clone();
            up.push('\u{0}');
            let mut v = vec![Val::S(up)];
            if !s.is_empty() {
                // a predecessor-ish value: drop last char (a strict prefix sorts before)
                let mut down = s.clone();
                down.pop();
                v.push(Val::S(down));
            }
            v
        }
        _ => vec![],
    }
}
fn next_up(f: f64) -> f64 {
    if f.is_nan() || f == f64::INFINITY {
        return f;
    }
    if f == 0.0 {
        return f64::from_bits(1);
    }
    let b = f.to_bits();
    f64::from_bits(if f > 0.0 { b + 1 } else { b - 1 })
}
fn next_down(f: f64) -> f64 {
    -next_up(-f)
}

pub struct Box1 {
    pub min: Option<Val>,
    pub max: Option<Val>,
    pub has_nulls: bool,
    pub bounded: bool,
}

pub fn col_values(c: &Col) -> Vec<Val> {
    c.rows.iter().map(|r| r.map(|d| own_val(c.kind, d)).unwrap_or(Val::Null)).collect()
}

pub fn true_stats(c: &Col) -> Option<(Val, Val, bool)> {
    let vals = col_values(c);
    let has_nulls = vals.iter().any(|v| *v == Val::Null);
    let mut nn: Vec<&Val> = vals.iter().filter(|v| **v != Val::Null).collect();
    if nn.is_empty() {
        return None;
    }
    nn.sort_by(|a, b| cmp(a, b).unwrap());
    Some((nn[0].clone(), nn[nn.len() - 1].clone(), has_nulls))
}

fn val_json(v: &Val) -> serde_json::Value {
    match v {
        Val::I(i) => serde_json::json!(i),
        Val::F(f) => serde_json::json!(f),
        Val::S(s) => serde_json::json!(s),
        Val::Null => serde_json::Value::Null,
    }
}

/// Build the `ColumnStats` map the SUT sees, and the oracle's box per column.
pub fn build_stats(cols: &[Col]) -> (HashMap<String, ColumnStats>, Vec<Box1>) {
    let mut m = HashMap::new();
    let mut boxes = Vec::new();
    for (i, c) in cols.iter().enumerate() {
        let ts = true_stats(c);
        match (&c.stats, ts) {
            (StatsMode::Exact, Some((mn, mx, hn))) => {
                m.insert(format!("c{}", i), ColumnStats { min: val_json(&mn), max: val_json(&mx), has_nulls: hn });
                boxes.push(Box1 { min: Some(mn), max: Some(mx), has_nulls: hn, bounded: true });
            }
            (StatsMode::Mistyped(k), Some((mn, mx, hn))) => {
                // wrong JSON type for this column kind
                let (jmin, jmax) = match (c.kind, k % 5) {
                    (Kind::Str, 0) => (serde_json::json!(1), serde_json::json!(2)),
                    (Kind::Str, 1) => (serde_json::json!(1.5), serde_json::json!(2.5)),
                    (_, 0) => (serde_json::json!("a"), serde_json::json!("b")),
                    (_, 1) => (serde_json::json!("5"), serde_json::json!("7")),
                    (_, 2) => (serde_json::Value::Null, serde_json::Value::Null),
                    (_, 3) => (serde_json::json!({"v": 1}), serde_json::json!([2])),
                    (_, _) => (serde_json::json!(true), serde_json::json!(false)),
                };
                m.insert(format!("c{}", i), ColumnStats { min: jmin, max: jmax, has_nulls: hn });
                let _ = (mn, mx);
                boxes.push(Box1 { min: None, max: None, has_nulls: true, bounded: false });
            }
            _ => {
                boxes.push(Box1 { min: None, max: None, has_nulls: true, bounded: false });
            }
        }
    }
    (m, boxes)
}

fn in_box(b: &Box1, v: &Val) -> bool {
    if *v == Val::Null {
        return b.has_nulls;
    }
    if !b.bounded {
        return true;
    }
    let ge = cmp(v, b.min.as_ref().unwrap()).map(|o| o != std::cmp::Ordering::Less).unwrap_or(false);
    let le = cmp(v, b.max.as_ref().unwrap()).map(|o| o != std::cmp::Ordering::Greater).unwrap_or(false);
    ge && le
}

/// Is there a point in the statistics box satisfying the predicate?  Returns a witness.
pub fn box_satisfiable(case: &Case) -> Option<Vec<Val>> {
    let kinds: Vec<Kind> = case.cols.iter().map(|c| c.kind).collect();
    let (_, boxes) = build_stats(&case.cols);
    let mut used = [false; NCOLS];
    cols_used(&case.pred, &mut used);
    let mut cands: Vec<Vec<Val>> = Vec::new();
    for i in 0..NCOLS {
        if !used[i] {
            cands.push(vec![Val::Null]);
            continue;
        }
        let b = &boxes[i];
        let mut cs: Vec<Val> = Vec::new();
        if let (Some(mn), Some(mx)) = (&b.min, &b.max) {
            cs.push(mn.clone());
            cs.push(mx.clone());
        }
        let mut lits = Vec::new();
        literals_for(&case.pred, i, &kinds, &mut lits);
        for l in &lits {
            // the literal itself, if representable in the column's kind
            match (kinds[i], l) {
                (Kind::Int, Val::I(_)) | (Kind::Float, Val::F(_)) | (Kind::Str, Val::S(_)) => cs.push(l.clone()),
                (Kind::Int, Val::F(f)) if f.fract() == 0.0 && f.abs() < 9.0e15 => cs.push(Val::I(*f as i64)),
                (Kind::Float, Val::I(x)) => cs.push(Val::F(*x as f64)),
                _ => {}
            }
            cs.extend(neighbours(kinds[i], l));
        }
        if !b.bounded {
            // far-away points for the unbounded regions
            match kinds[i] {
                Kind::Int => {
                    cs.push(Val::I(-(1 << 60)));
                    cs.push(Val::I(1 << 60));
                }
                Kind::Float => {
                    cs.push(Val::F(-1e308));
                    cs.push(Val::F(1e308));
                }
                Kind::Str => {
                    cs.push(Val::S(String::new()));
                    cs.push(Val::S("\u{10FFFF}\u{10FFFF}".into()));
                }
            }
        }
        cs.push(Val::Null);
        cs.retain(|v| in_box(b, v));
        cs.dedup();
        if cs.is_empty() {
            cs.push(Val::Null); // cannot happen for a consistent box; keeps product non-empty
        }
        cands.push(cs);
    }
    for a in &cands[0] {
        for b in &cands[1] {
            for c in &cands[2] {
                let row = [a.clone(), b.clone(), c.clone()];
                if eval(&case.pred, &kinds, &row) == T3::T {
                    return Some(row.to_vec());
                }
            }
        }
    }
    None
}

pub fn rows_satisfy(case: &Case) -> bool {
    let kinds: Vec<Kind> = case.cols.iter().map(|c| c.kind).collect();
    let n = case.cols.iter().map(|c| c.rows.len()).min().unwrap_or(0);
    let vals: Vec<Vec<Val>> = case.cols.iter().map(col_values).collect();
    (0..n).any(|r| {
        let row: Vec<Val> = (0..NCOLS).map(|i| vals[i][r].clone()).collect();
        eval(&case.pred, &kinds, &row) == T3::T
    })
}

fn has_op(p: &P, f: &dyn Fn(&P) -> bool) -> bool {
    if f(p) {
        return true;
    }
    match p {
        P::And(a, b) | P::Or(a, b) => has_op(a, f) || has_op(b, f),
        P::Not(a) => has_op(a, f),
        _ => false,
    }
}

/// a literal equals a statistics end point of its column
fn touches_endpoint(case: &Case) -> bool {
    let kinds: Vec<Kind> = case.cols.iter().map(|c| c.kind).collect();
    let (_, boxes) = build_stats(&case.cols);
    (0..NCOLS).any(|i| {
        let mut lits = Vec::new();
        literals_for(&case.pred, i, &kinds, &mut lits);
        let b = &boxes[i];
        b.bounded
            && lits.iter().any(|l| {
                cmp(l, b.min.as_ref().unwrap()) == Some(std::cmp::Ordering::Equal) || cmp(l, b.max.as_ref().unwrap()) == Some(std::cmp::Ordering::Equal)
            })
    })
}

fn leaf_name(p: &P) -> &'static str {
    match p {
        P::Eq(..) => "eq",
        P::NotEq(..) => "noteq",
        P::Lt(..) => "lt",
        P::LtEq(..) => "lteq",
        P::Gt(..) => "gt",
        P::GtEq(..) => "gteq",
        P::In(..) => "in",
        P::NotIn(..) => "notin",
        P::Between(..) => "between",
        P::And(..) => "and",
        P::Or(..) => "or",
        P::Not(..) => "not",
    }
}

pub fn exec_box(case: &Case) -> Outcome {
    let kinds: Vec<Kind> = case.cols.iter().map(|c| c.kind).collect();
    let (stats, _) = build_stats(&case.cols);
    let pred = to_pred(&case.pred, &kinds);
    let verdict = pred.evaluate_against_stats(&stats);
    let mut out = Outcome::pass();
    let endpoint = touches_endpoint(case);
    out.nontrivial = !verdict || endpoint;
    out.class(if verdict { "verdict:may-match" } else { "verdict:prune" });
    if endpoint {
        out.class("literal-equals-endpoint");
    }
    out.class(format!("root:{}", leaf_name(&case.pred)));
    if has_op(&case.pred, &|p| matches!(p, P::Not(_))) {
        out.class("has-not");
    }
    if has_op(&case.pred, &|p| matches!(p, P::Or(..))) {
        out.class("has-or");
    }
    if case.cols.iter().any(|c| !matches!(c.stats, StatsMode::Exact)) {
        out.class("missing-or-mistyped-stats");
    }
    let mut used = [false; NCOLS];
    cols_used(&case.pred, &mut used);
    if case.cols.iter().enumerate().any(|(i, c)| used[i] && c.kind == Kind::Int && col_values(c).iter().any(|v| matches!(v, Val::I(x) if x.unsigned_abs() > 1 << 53))) {
        out.class("int-column-beyond-2^53");
        if !verdict {
            out.class("int-column-beyond-2^53:pruned");
        }
    }
    if !verdict {
        if let Some(w) = box_satisfiable(case) {
            // signature: the kind of leaf responsible when the tree is a single leaf, else "tree"
            let sig = match &case.pred {
                P::And(..) | P::Or(..) | P::Not(..) => "prune-unsound:tree".to_string(),
                leaf => format!("prune-unsound:{}", leaf_name(leaf)),
            };
            out.set_fail(sig, format!("pruned although {:?} lies within the statistics and satisfies {:?}", w, pred));
        }
    }
    // leaves over columns with missing / mistyped stats must answer may-match
    if let P::Eq(c, _) | P::Lt(c, _) | P::LtEq(c, _) | P::Gt(c, _) | P::GtEq(c, _) | P::In(c, _) | P::Between(c, _, _) | P::NotEq(c, _) | P::NotIn(c, _) = &case.pred {
        let i = *c as usize % NCOLS;
        if !matches!(case.cols[i].stats, StatsMode::Exact) && !verdict {
            out.set_fail("prune-without-usable-stats", format!("leaf {:?} pruned on a column without usable statistics", pred));
        }
    }
    out
}

// ---- second level: get_chunks_with_predicates on a catalog carrying stats ----

#[derive(Clone, Debug, Serialize, Deserialize)]
pub struct CatCase {
    pub chunks: Vec<Vec<Col>>, // per chunk: NCOLS columns (kinds forced equal to chunk 0's)
    pub pred: P,
}

pub fn exec_catalog(case: &CatCase) -> Outcome {
    use cardinalsin::ingester::ChunkMetadata;
    use cardinalsin::metadata::{MetadataClient, ObjectStoreMetadataClient, ObjectStoreMetadataConfig, TimeRange};
    use std::sync::Arc;
    let kinds: Vec<Kind> = case.chunks[0].iter().map(|c| c.kind).collect();
    let chunks: Vec<Vec<Col>> = case
        .chunks
        .iter()
        .map(|cols| cols.iter().enumerate().map(|(i, c)| Col { kind: kinds[i], rows: c.rows.clone(), stats: c.stats.clone() }).collect())
        .collect();
    let pred = to_pred(&case.pred, &kinds);
    let rt = tokio::runtime::Builder::new_current_thread().enable_all().build().unwrap();
    let (returned, expected, after_compaction): (Vec<String>, Vec<String>, Option<Vec<String>>) = rt.block_on(async {
        let store: Arc<dyn object_store::ObjectStore> = Arc::new(object_store::memory::InMemory::new());
        let client = ObjectStoreMetadataClient::new(store, ObjectStoreMetadataConfig::default());
        let mut expected = Vec::new();
        for (i, cols) in chunks.iter().enumerate() {
            let path = format!("t/data/chunk_{}.parquet", i);
            let meta = ChunkMetadata { path: path.clone(), min_timestamp: 10 + i as i64, max_timestamp: 20 + i as i64, row_count: 1, size_bytes: 1 };
            client.register_chunk(&path, &meta).await.unwrap();
            let c = Case { cols: cols.clone(), pred: case.pred.clone() };
            if rows_satisfy(&c) {
                expected.push(path);
            }
        }
        let mut md = client.load_chunk_metadata().await.unwrap();
        for (i, cols) in chunks.iter().enumerate() {
            let path = format!("t/data/chunk_{}.parquet", i);
            let (stats, _) = build_stats(cols);
            md.get_mut(&path).unwrap().column_stats = stats;
        }
        client.save_chunk_metadata(&md).await.unwrap();
        let got = client.get_chunks_with_predicates(TimeRange::new(0, 1000), &[pred.clone()]).await.unwrap();
        // the first two chunks are then compacted into one (the catalog's own publish step decides
        // what statistics the merged chunk carries): it holds the rows of both
        let mut after = None;
        if chunks.len() >= 2 {
            let target = ChunkMetadata { path: "t/data/merged.parquet".into(), min_timestamp: 10, max_timestamp: 21, row_count: 2, size_bytes: 2 };
            if client.publish_compaction(&["t/data/chunk_0.parquet".to_string(), "t/data/chunk_1.parquet".to_string()], &target).await.is_ok() {
                let got2 = client.get_chunks_with_predicates(TimeRange::new(0, 1000), &[pred.clone()]).await.unwrap();
                after = Some(got2.into_iter().map(|e| e.chunk_path).collect());
            }
        }
        (got.into_iter().map(|e| e.chunk_path).collect(), expected, after)
    });
    let mut out = Outcome::pass();
    let pruned = chunks.len() - returned.len();
    out.nontrivial = pruned > 0 && !expected.is_empty();
    if pruned > 0 {
        out.class("some-chunk-pruned");
    }
    if !expected.is_empty() {
        out.class("some-chunk-matches");
    }
    for e in &expected {
        if !returned.contains(e) {
            out.set_fail("catalog-prune-unsound", format!("{} holds a row satisfying {:?} but was not returned", e, pred));
        }
    }
    if let Some(after) = after_compaction {
        out.class("queried-again-after-a-compaction");
        let merged_matches = expected.iter().any(|e| e.ends_with("chunk_0.parquet") || e.ends_with("chunk_1.parquet"));
        if !after.iter().any(|p| p.ends_with("merged.parquet")) {
            out.class("merged-chunk-pruned");
            if merged_matches {
                out.set_fail("catalog-prune-unsound:after-compaction", format!("chunks 0 and 1 were compacted into t/data/merged.parquet, which holds a row satisfying {:?} (a source did before the compaction), but the merged chunk was not returned", pred));
            }
        }
        for e in expected.iter().filter(|e| !(e.ends_with("chunk_0.parquet") || e.ends_with("chunk_1.parquet"))) {
            if !after.contains(e) {
                out.set_fail("catalog-prune-unsound:after-compaction", format!("{} holds a row satisfying {:?} but was not returned after a compaction of other chunks", e, pred));
            }
        }
    }
    out
}


// ---- predicates as the query path derives them from SQL -------------------------------------

const SQLCOLS: [&str; NCOLS] = ["value_i64", "value_f64", "host"];
const SQLKINDS: [Kind; NCOLS] = [Kind::Int, Kind::Float, Kind::Str];

#[derive(Clone, Debug, Serialize, Deserialize)]
pub struct SqlCase {
    pub case: Case,
    /// bit i set = the i-th comparison leaf (in left-to-right order) is written literal-first
    pub rev: u32,
    /// 0 = `FROM metrics`; 1 = `FROM (SELECT * FROM metrics) AS t` (the same columns through a derived
    /// table); 2 = a derived table that redefines value_i64 as `0 - value_i64` under the same name:
    /// the WHERE clause then speaks about the derived column, whose values are not the stored ones
    #[serde(default)]
    pub shape: u8,
    /// bit i set = the i-th comparison leaf, if it compares the integer column with a decimal literal,
    /// is written `CAST(<literal> AS BIGINT)`: the statement then compares with the value of the
    /// cast (the literal truncated towards zero), not with the literal
    #[serde(default)]
    pub cast: u32,
}

fn sql_lit(kind: Kind, l: &Lit) -> Option<String> {
    Some(match lit_val(kind, l) {
        (_, PredicateValue::Int64(i)) => format!("{}", i),
        (_, PredicateValue::Float64(f)) => {
            if !f.is_finite() {
                return None;
            }
            format!("{:?}", f)
        }
        (_, PredicateValue::String(s)) => {
            if s.contains('\u{0}') {
                return None;
            }
            format!("'{}'", s.replace('\'', "''"))
        }
        (_, PredicateValue::Null) => "NULL".to_string(),
        (_, PredicateValue::Boolean(_)) => return None,
    })
}

/// the integer a cast-wrapped decimal literal against the integer column stands for (as an index of
/// the integer domain), if the leaf is eligible
fn cast_target(c: &u8, l: &Lit) -> Option<i8> {
    if SQLKINDS[*c as usize % NCOLS] != Kind::Int {
        return None;
    }
    match l {
        Lit::Cross(d) => {
            let f = float_of(*d);
            if f.is_finite() && f.abs() <= 80.0 {
                Some(f.trunc() as i8)
            } else {
                None
            }
        }
        _ => None,
    }
}

/// the tree the statement means once the casts selected by `cast` are evaluated (same leaf numbering as p_sql)
fn apply_casts(p: &P, cast: u32, leaf: &mut u32) -> P {
    let mut one = |c: &u8, l: &Lit| -> Lit {
        let on = cast & (1 << (*leaf % 32)) != 0;
        *leaf += 1;
        match (on, cast_target(c, l)) {
            (true, Some(v)) => Lit::Own(v),
            _ => l.clone(),
        }
    };
    match p {
        P::Eq(c, l) => P::Eq(*c, one(c, l)),
        P::NotEq(c, l) => P::NotEq(*c, one(c, l)),
        P::Lt(c, l) => P::Lt(*c, one(c, l)),
        P::LtEq(c, l) => P::LtEq(*c, one(c, l)),
        P::Gt(c, l) => P::Gt(*c, one(c, l)),
        P::GtEq(c, l) => P::GtEq(*c, one(c, l)),
        P::And(a, b) => {
            let a2 = apply_casts(a, cast, leaf);
            P::And(Box::new(a2), Box::new(apply_casts(b, cast, leaf)))
        }
        P::Or(a, b) => {
            let a2 = apply_casts(a, cast, leaf);
            P::Or(Box::new(a2), Box::new(apply_casts(b, cast, leaf)))
        }
        P::Not(a) => {
            if let P::Between(..) = a.as_ref() {
                *leaf += 1;
                return p.clone();
            }
            P::Not(Box::new(apply_casts(a, cast, leaf)))
        }
        other => other.clone(),
    }
}

fn p_sql(p: &P, rev: u32, cast: u32, leaf: &mut u32) -> Option<String> {
    let col = |c: &u8| SQLCOLS[*c as usize % NCOLS];
    let kind = |c: &u8| SQLKINDS[*c as usize % NCOLS];
    let mut cmp = |c: &u8, l: &Lit, op: &str, swapped: &str| -> Option<String> {
        let mut lit = sql_lit(kind(c), l)?;
        if cast & (1 << (*leaf % 32)) != 0 && cast_target(c, l).is_some() {
            lit = format!("CAST({} AS BIGINT)", lit);
        }
        let r = rev & (1 << (*leaf % 32)) != 0;
        *leaf += 1;
        Some(if r { format!("{} {} {}", lit, swapped, col(c)) } else { format!("{} {} {}", col(c), op, lit) })
    };
    Some(match p {
        P::Eq(c, l) => cmp(c, l, "=", "=")?,
        P::NotEq(c, l) => cmp(c, l, "<>", "<>")?,
        P::Lt(c, l) => cmp(c, l, "<", ">")?,
        P::LtEq(c, l) => cmp(c, l, "<=", ">=")?,
        P::Gt(c, l) => cmp(c, l, ">", "<")?,
        P::GtEq(c, l) => cmp(c, l, ">=", "<=")?,
        P::In(c, ls) => format!("{} IN ({})", col(c), ls.iter().map(|l| sql_lit(kind(c), l)).collect::<Option<Vec<_>>>()?.join(", ")),
        P::NotIn(c, ls) => format!("{} NOT IN ({})", col(c), ls.iter().map(|l| sql_lit(kind(c), l)).collect::<Option<Vec<_>>>()?.join(", ")),
        P::Between(c, a, b) => format!("{} BETWEEN {} AND {}", col(c), sql_lit(kind(c), a)?, sql_lit(kind(c), b)?),
        P::And(a, b) => format!("({} AND {})", p_sql(a, rev, cast, leaf)?, p_sql(b, rev, cast, leaf)?),
        P::Or(a, b) => format!("({} OR {})", p_sql(a, rev, cast, leaf)?, p_sql(b, rev, cast, leaf)?),
        P::Not(a) => {
            // the two spellings of a negated BETWEEN
            if let P::Between(c, lo, hi) = a.as_ref() {
                let r = rev & (1 << (*leaf % 32)) != 0;
                *leaf += 1;
                if r {
                    return Some(format!("{} NOT BETWEEN {} AND {}", SQLCOLS[*c as usize % NCOLS], sql_lit(SQLKINDS[*c as usize % NCOLS], lo)?, sql_lit(SQLKINDS[*c as usize % NCOLS], hi)?));
                }
            }
            format!("(NOT {})", p_sql(a, rev, cast, leaf)?)
        }
    })
}

/// SQL WHERE clause -> QueryEngine::extract_column_predicates (as QueryNode does for every query)
/// -> conjunction evaluated against the chunk's statistics; a 'prune' verdict is refuted by the
/// same satisfiability search.
pub fn exec_sql(sc: &SqlCase) -> Outcome {
    use cardinalsin::metadata::{LocalMetadataClient, MetadataClient};
    use std::sync::Arc;
    let mut out = Outcome::pass();
    // the three columns are the default schema's value_i64 / value_f64 / host
    let cols: Vec<Col> = sc.case.cols.iter().enumerate().map(|(i, c)| Col { kind: SQLKINDS[i], rows: c.rows.clone(), stats: c.stats.clone() }).collect();
    let case = Case { cols: cols.clone(), pred: sc.case.pred.clone() };
    let mut leaf = 0u32;
    let wher = match p_sql(&case.pred, sc.rev, sc.cast, &mut leaf) {
        Some(w) => w,
        None => {
            out.class("not-expressible-in-sql");
            return out;
        }
    };
    // shape 2 needs the negation of every stored integer to be in the value domain
    let negatable = cols[0].rows.iter().all(|r| r.map(|d| (-104..=104).contains(&d)).unwrap_or(true));
    let shape = if sc.shape % 3 == 2 && !negatable { 0 } else { sc.shape % 3 };
    // what the WHERE clause is true of: the stored rows, or (shape 2) rows whose value_i64 is negated
    let meant = {
        let mut n = 0u32;
        apply_casts(&case.pred, sc.cast, &mut n)
    };
    if format!("{:?}", meant) != format!("{:?}", case.pred) {
        out.class("literal-wrapped-in-a-value-changing-cast");
    }
    let case_meant = Case { cols: case.cols.clone(), pred: meant };
    let truth = if shape == 2 {
        let mut t = case_meant.clone();
        t.cols[0].rows = t.cols[0].rows.iter().map(|r| r.map(|d| -d)).collect();
        t
    } else {
        case_meant.clone()
    };
    // no timestamp term: the extraction gives up on a conjunction that contains one
    let sql = match shape {
        1 => {
            out.class("from:derived-table-same-columns");
            format!("SELECT * FROM (SELECT * FROM metrics) AS t WHERE {}", wher)
        }
        2 => {
            out.class("from:derived-table-redefining-a-column");
            format!("SELECT * FROM (SELECT (0 - value_i64) AS value_i64, value_f64, host FROM metrics) AS t WHERE {}", wher)
        }
        _ => format!("SELECT * FROM metrics WHERE {}", wher),
    };
    thread_local! {
        static NODE: std::cell::RefCell<Option<(tokio::runtime::Runtime, Arc<cardinalsin::query::QueryNode>)>> = const { std::cell::RefCell::new(None) };
    }
    let preds = NODE.with(|n| {
        let mut n = n.borrow_mut();
        if n.is_none() {
            let rt = tokio::runtime::Builder::new_current_thread().enable_all().build().unwrap();
            let node = rt.block_on(async {
                let store: Arc<dyn object_store::ObjectStore> = Arc::new(object_store::memory::InMemory::new());
                let md: Arc<dyn MetadataClient> = Arc::new(LocalMetadataClient::new());
                cardinalsin::query::QueryNode::new(cardinalsin::query::QueryConfig { l1_cache_size: 1 << 20, l2_cache_size: 0, l2_cache_dir: None, ..Default::default() }, store, md, crate::qenv::storage_config()).await.expect("query node")
            });
            *n = Some((rt, Arc::new(node)));
        }
        let (rt, node) = n.as_ref().unwrap();
        rt.block_on(node.engine.extract_column_predicates(&sql))
    });
    let preds = match preds {
        Ok(p) => p,
        Err(_) => {
            // e.g. a literal the planner cannot coerce to the column's type: nothing is pushed down
            out.class("statement-refused-by-the-planner");
            return out;
        }
    };
    let (stats0, _) = build_stats(&cols);
    let stats: HashMap<String, ColumnStats> = stats0.into_iter().map(|(k, v)| (SQLCOLS[k[1..].parse::<usize>().unwrap()].to_string(), v)).collect();
    let verdict = preds.iter().all(|p| p.evaluate_against_stats(&stats));
    out.class(if preds.is_empty() { "nothing-pushed-down" } else { "predicates-pushed-down" });
    if sc.rev != 0 && leaf > 0 && (sc.rev & ((1u32 << leaf.min(31)) - 1)) != 0 {
        out.class("literal-first-comparison");
    }
    out.nontrivial = !verdict || (!preds.is_empty() && touches_endpoint(&case));
    if !verdict {
        out.class("verdict:prune");
        if let Some(w) = box_satisfiable(&truth) {
            let sig = match &case.pred {
                _ if shape == 2 => "sql-extraction-prune-unsound:derived-column".to_string(),
                P::And(..) | P::Or(..) | P::Not(..) => "sql-extraction-prune-unsound:tree".to_string(),
                l => format!("sql-extraction-prune-unsound:{}", leaf_name(l)),
            };
            out.set_fail(sig, format!("{} -> pushed-down predicates {:?} prune a chunk although {:?} lies within its statistics and satisfies the WHERE clause", wher, preds, w));
        }
    }
    out
}

// ---- generators ------------------------------------------------------------

fn lit() -> impl Strategy<Value = Lit> {
    prop_oneof![
        12 => (-12i8..=12).prop_map(Lit::Own),
        2 => any::<i8>().prop_map(Lit::Own),
        2 => clustered(-6..=6).prop_map(Lit::Own),
        3 => (-12i8..=12).prop_map(Lit::Cross),
        1 => Just(Lit::Null),
        1 => any::<bool>().prop_map(Lit::Bool),
    ]
}

fn leaf() -> impl Strategy<Value = P> {
    let c = 0u8..NCOLS as u8;
    prop_oneof![
        (c.clone(), lit()).prop_map(|(c, l)| P::Eq(c, l)),
        (c.clone(), lit()).prop_map(|(c, l)| P::NotEq(c, l)),
        (c.clone(), lit()).prop_map(|(c, l)| P::Lt(c, l)),
        (c.clone(), lit()).prop_map(|(c, l)| P::LtEq(c, l)),
        (c.clone(), lit()).prop_map(|(c, l)| P::Gt(c, l)),
        (c.clone(), lit()).prop_map(|(c, l)| P::GtEq(c, l)),
        (c.clone(), prop::collection::vec(lit(), 1..4)).prop_map(|(c, l)| P::In(c, l)),
        (c.clone(), prop::collection::vec(lit(), 1..4)).prop_map(|(c, l)| P::NotIn(c, l)),
        (c, lit(), lit()).prop_map(|(c, a, b)| P::Between(c, a, b)),
    ]
}

pub fn pred_tree() -> impl Strategy<Value = P> {
    leaf().prop_recursive(4, 16, 2, |inner| {
        prop_oneof![
            (inner.clone(), inner.clone()).prop_map(|(a, b)| P::And(Box::new(a), Box::new(b))),
            (inner.clone(), inner.clone()).prop_map(|(a, b)| P::Or(Box::new(a), Box::new(b))),
            inner.prop_map(|a| P::Not(Box::new(a))),
        ]
    })
}

/// Centres of the value clusters at large magnitudes (see `int_of` / `float_of`).
const CLUSTERS: [i8; 8] = [97, -97, 113, -113, 124, -124, 126, -126];

fn clustered(d: std::ops::RangeInclusive<i8>) -> impl Strategy<Value = i8> {
    (0usize..CLUSTERS.len(), d).prop_map(|(c, o)| CLUSTERS[c].saturating_add(o))
}

fn col() -> impl Strategy<Value = Col> {
    let small = prop::collection::vec(prop_oneof![8 => (-12i8..=12).prop_map(Some), 1 => any::<i8>().prop_map(Some), 1 => Just(None)], 1..8);
    // all rows from one cluster of large magnitude: neighbouring values that differ in the last digit
    let big = (0usize..CLUSTERS.len(), prop::collection::vec(prop_oneof![9 => (-6i8..=6).prop_map(Some), 1 => Just(None)], 1..6))
        .prop_map(|(c, os)| os.into_iter().map(|o| o.map(|o| CLUSTERS[c].saturating_add(o))).collect::<Vec<_>>());
    (
        prop_oneof![Just(Kind::Int), Just(Kind::Float), Just(Kind::Str)],
        prop_oneof![6 => small, 1 => big],
        prop_oneof![8 => Just(StatsMode::Exact), 1 => Just(StatsMode::Missing), 1 => any::<u8>().prop_map(StatsMode::Mistyped)],
    )
        .prop_map(|(kind, rows, stats)| Col { kind, rows, stats })
}

fn case_strategy(_t: Tier) -> BoxedStrategy<Case> {
    (prop::collection::vec(col(), NCOLS), pred_tree()).prop_map(|(cols, pred)| Case { cols, pred }).boxed()
}

/// Focused: a single leaf whose literal is drawn from the column's own rows
/// (so end-point equality is frequent).
fn endpoint_strategy(_t: Tier) -> BoxedStrategy<Case> {
    (prop::collection::vec(col(), NCOLS), 0u8..NCOLS as u8, any::<u16>(), 0u8..9, any::<u16>())
        .prop_map(|(mut cols, c, pick, op, pick2)| {
            let i = c as usize;
            cols[i].stats = StatsMode::Exact;
            let rows: Vec<i8> = cols[i].rows.iter().flatten().cloned().collect();
            let d = if rows.is_empty() { 0 } else { rows[pick_idx(pick, rows.len())] };
            let d2 = if rows.is_empty() { 0 } else { rows[pick_idx(pick2, rows.len())] };
            let l = Lit::Own(d);
            let pred = match op {
                0 => P::Eq(c, l),
                1 => P::Lt(c, l),
                2 => P::LtEq(c, l),
                3 => P::Gt(c, l),
                4 => P::GtEq(c, l),
                5 => P::In(c, vec![l]),
                6 => P::Between(c, l, Lit::Own(d2)),
                7 => P::Between(c, Lit::Own(d2), l),
                _ => P::NotEq(c, l),
            };
            Case { cols, pred }
        })
        .boxed()
}

fn cat_strategy(_t: Tier) -> BoxedStrategy<CatCase> {
    (prop::collection::vec(prop::collection::vec(col(), NCOLS), 1..5), pred_tree()).prop_map(|(chunks, pred)| CatCase { chunks, pred }).boxed()
}

pub fn def() -> PropDef {
    PropDef {
        id: "C12",
        level: "exploration",
        rule: "random predicate trees (depth<=4; 6 comparisons, IN, NOT IN, BETWEEN, AND, OR, NOT) over 3 columns of kind int/float/string with 1-7 rows each from a small domain that includes the literals; statistics = true min/max/has_nulls, or missing, or mistyped JSON. Non-trivial = the verdict was 'prune' or a literal equals a statistics end point (box check); some chunk pruned while another chunk matches (catalog check; the first two chunks are then compacted through the catalog's publish_compaction and the query repeated: the merged chunk holds the rows of both). sql-extraction: the same trees rendered as a SQL WHERE clause over the default schema's value_i64 / value_f64 / host (each comparison leaf in either operand order), pushed through QueryEngine::extract_column_predicates as QueryNode does, the conjunction of what comes back evaluated against the statistics and refuted the same way. Distinct = distinct canonical JSON of the case.",
        assumptions: &[
            "SQL three-valued logic as implemented in the harness' reference evaluator",
            "candidate set {min,max,literal,successor/predecessor of literal} is complete for comparison trees (truth is piecewise constant between literals)",
            "a float literal compared with an integer column (and vice versa) stays within +-2^53; integer columns and integer literals themselves range over all of i64, including clusters of neighbours beyond 2^53",
        ],
        subs: || {
            vec![
                Box::new(Sub::<Case> { name: "box", cases: |t| t.scale(500_000, 10), strategy: case_strategy, exec: exec_box }),
                Box::new(Sub::<Case> { name: "endpoint-leaf", cases: |t| t.scale(200_000, 10), strategy: endpoint_strategy, exec: exec_box }),
                Box::new(Sub::<CatCase> { name: "catalog", cases: |t| t.scale(20_000, 10), strategy: cat_strategy, exec: exec_catalog }),
                Box::new(Sub::<SqlCase> { name: "sql-extraction", cases: |t| t.scale(60_000, 10), strategy: |t| (prop_oneof![1 => case_strategy(t), 1 => endpoint_strategy(t)], prop_oneof![1 => Just(0u32), 2 => any::<u32>()], prop_oneof![3 => Just(0u8), 1 => Just(1u8), 2 => Just(2u8)], prop_oneof![2 => Just(0u32), 1 => any::<u32>()]).prop_map(|(case, rev, shape, cast)| SqlCase { case, rev, shape, cast }).boxed(), exec: exec_sql }),
            ]
        },
    }
}
