//! C04 — query answers equal a full scan of everything ingested.
//!
//! Differential: `QueryNode::query(sql)` vs. the same SQL on a MemTable holding
//! every ingested row (fresh DataFusion context).  SQL comes from a grammar
//! whose WHERE is `window AND rest`; `window` confines the timestamp to a
//! finite interval *by construction* (the property's precondition).

use crate::core::*;
use crate::qenv::*;
use crate::util::*;
use proptest::prelude::*;
use serde::{Deserialize, Serialize};
use std::sync::Arc;

#[derive(Clone, Debug, Serialize, Deserialize)]
pub struct Bound {
    pub minute: u16,
    pub adj: i8,
    /// literal style for Timestamp-typed data: 0 TIMESTAMP '...', 1 to_timestamp_nanos(n), 2 now() - interval
    pub style: u8,
}

#[derive(Clone, Debug, Serialize, Deserialize)]
pub enum Win {
    Range { lo: Bound, lo_strict: bool, lo_rev: bool, hi: Bound, hi_strict: bool, hi_rev: bool },
    Between { lo: Bound, hi: Bound },
    Eq { b: Bound, rev: bool },
    Or(Box<Win>, Box<Win>),
    /// NOT (ts < lo) AND NOT (ts > hi)
    NotOpp { lo: Bound, hi: Bound },
    /// timestamp IN (b1, b2, ...) in the given order
    In(Vec<Bound>),
    /// (timestamp = b1 OR timestamp = b2 OR ...), flat, in the given order
    OrEqs(Vec<Bound>),
    /// conjunction of two finite windows
    And(Box<Win>, Box<Win>),
}

#[derive(Clone, Debug, Serialize, Deserialize)]
pub enum Rest {
    None,
    HostEq(u8),
    HostNe(u8),
    HostNull,
    MetricEq(u8),
    MetricIn(Vec<u8>),
    ZoneEq(u8),
    ValueGt(i8),
    /// value_f64 <op> literal with op in {=, <>, <, <=, >, >=}, or the literal written first
    ValueCmp { op: u8, v: i8, rev: bool },
    /// host <op> 'literal' with an ordering operator, or the literal written first
    HostCmp { op: u8, h: u8, rev: bool },
    And(Box<Rest>, Box<Rest>),
    Or(Box<Rest>, Box<Rest>),
    Not(Box<Rest>),
}

#[derive(Clone, Debug, Serialize, Deserialize)]
pub enum Proj {
    Star,
    Cols,
    CountStar,
    Agg { f: u8, group: u8 },
    DistinctMetric,
}

#[derive(Clone, Debug, Serialize, Deserialize)]
pub struct Query {
    pub win: Win,
    pub rest: Rest,
    pub proj: Proj,
    /// Some(k): before this query is asked, the same statement is submitted once and its future
    /// dropped after k scheduler turns (a client that disconnects / times out mid-request)
    #[serde(default)]
    pub abandoned_after: Option<u8>,
    /// row statements only: `[ORDER BY timestamp] LIMIT n` (bit 7 = with ORDER BY). Any n matching
    /// rows are a correct answer: the oracle is a validity predicate, not one expected answer
    #[serde(default)]
    pub limit: Option<u8>,
}

#[derive(Clone, Debug, Serialize, Deserialize)]
pub struct Case {
    pub data: Dataset,
    pub queries: Vec<Query>,
    /// a fresh query node per query (otherwise one node is reused and warms up)
    pub fresh_each: bool,
    pub adaptive: bool,
    /// run a real compaction cycle (low thresholds) between ingest and the queries
    #[serde(default)]
    pub compact: bool,
    /// record true per-column min / max / has_nulls statistics in the catalog (object-store catalog only)
    #[serde(default)]
    pub with_stats: bool,
}

struct Ctx<'a> {
    d: &'a Dataset,
    now: i64,
    allow_now_rel: bool,
}

fn bound_value(c: &Ctx, b: &Bound) -> i64 {
    c.d.start(c.now) + (b.minute as i64 % (c.d.span_min() + 1)) * MIN + (b.adj as i64).clamp(-1, 1)
}

fn lit(c: &Ctx, b: &Bound, flags: &mut Flags) -> String {
    let v = bound_value(c, b);
    if c.d.ts_type % 2 == 0 {
        return format!("{}", v);
    }
    match b.style % 3 {
        2 if c.allow_now_rel => {
            // now() - interval 'K minutes': lies strictly between minute marks
            let k = ((c.now - v) / MIN).max(0);
            flags.now_rel = true;
            format!("now() - interval '{} minutes'", k)
        }
        1 => {
            flags.to_nanos = true;
            format!("to_timestamp_nanos({})", v)
        }
        _ => {
            flags.ts_literal = true;
            let dt = chrono::DateTime::<chrono::Utc>::from_timestamp(v.div_euclid(1_000_000_000), v.rem_euclid(1_000_000_000) as u32).unwrap();
            format!("TIMESTAMP '{}'", dt.format("%Y-%m-%d %H:%M:%S%.9f"))
        }
    }
}

#[derive(Default, Clone, Debug)]
pub struct Flags {
    pub now_rel: bool,
    pub to_nanos: bool,
    pub ts_literal: bool,
    pub not_window: bool,
    pub or_window: bool,
    pub in_list: bool,
    pub value_cmp: bool,
    pub and_window: bool,
    pub eq_in_or: bool,
    pub eq: bool,
    pub rev: bool,
    pub rev_eq: bool,
    pub between: bool,
    pub custom_label: bool,
    pub rest_or: bool,
    pub rest_not: bool,
    pub agg: bool,
}

fn win_sql(c: &Ctx, w: &Win, f: &mut Flags, in_or: bool) -> String {
    match w {
        Win::Range { lo, lo_strict, lo_rev, hi, hi_strict, hi_rev } => {
            let l = lit(c, lo, f);
            let h = lit(c, hi, f);
            if *lo_rev || *hi_rev {
                f.rev = true;
            }
            let a = if *lo_rev { format!("{} {} timestamp", l, if *lo_strict { "<" } else { "<=" }) } else { format!("timestamp {} {}", if *lo_strict { ">" } else { ">=" }, l) };
            let b = if *hi_rev { format!("{} {} timestamp", h, if *hi_strict { ">" } else { ">=" }) } else { format!("timestamp {} {}", if *hi_strict { "<" } else { "<=" }, h) };
            format!("({} AND {})", a, b)
        }
        Win::Between { lo, hi } => {
            f.between = true;
            format!("(timestamp BETWEEN {} AND {})", lit(c, lo, f), lit(c, hi, f))
        }
        Win::Eq { b, rev } => {
            f.eq = true;
            if in_or {
                f.eq_in_or = true;
            }
            if *rev {
                f.rev_eq = true;
                format!("({} = timestamp)", lit(c, b, f))
            } else {
                format!("(timestamp = {})", lit(c, b, f))
            }
        }
        Win::Or(a, b) => {
            f.or_window = true;
            format!("({} OR {})", win_sql(c, a, f, true), win_sql(c, b, f, true))
        }
        Win::NotOpp { lo, hi } => {
            f.not_window = true;
            format!("(NOT (timestamp < {}) AND NOT (timestamp > {}))", lit(c, lo, f), lit(c, hi, f))
        }
        Win::In(bs) => {
            f.in_list = true;
            format!("(timestamp IN ({}))", bs.iter().map(|b| lit(c, b, f)).collect::<Vec<_>>().join(", "))
        }
        Win::OrEqs(bs) => {
            f.in_list = true;
            f.eq = true;
            format!("({})", bs.iter().map(|b| format!("timestamp = {}", lit(c, b, f))).collect::<Vec<_>>().join(" OR "))
        }
        Win::And(a, b) => {
            f.and_window = true;
            format!("({} AND {})", win_sql(c, a, f, in_or), win_sql(c, b, f, in_or))
        }
    }
}

fn rest_sql(c: &Ctx, r: &Rest, f: &mut Flags) -> Option<String> {
    Some(match r {
        Rest::None => return None,
        Rest::HostEq(h) => format!("host = '{}'", HOSTS[*h as usize % 4]),
        Rest::HostNe(h) => format!("host <> '{}'", HOSTS[*h as usize % 4]),
        Rest::HostNull => "host IS NULL".to_string(),
        Rest::MetricEq(m) => format!("metric_name = '{}'", QMETRICS[*m as usize % 3]),
        Rest::MetricIn(ms) => format!("metric_name IN ({})", ms.iter().map(|m| format!("'{}'", QMETRICS[*m as usize % 3])).collect::<Vec<_>>().join(", ")),
        Rest::ZoneEq(z) => {
            if c.d.custom_label {
                f.custom_label = true;
                format!("zone_x = '{}'", ZONES[*z as usize % 3])
            } else {
                format!("host = '{}'", HOSTS[*z as usize % 4])
            }
        }
        Rest::ValueGt(v) => format!("value_f64 > {}", *v as f64 / 4.0),
        Rest::ValueCmp { op, v, rev } => {
            const OPS: [&str; 6] = ["=", "<>", "<", "<=", ">", ">="];
            // the same comparison with the operands exchanged
            const SWAPPED: [&str; 6] = ["=", "<>", ">", ">=", "<", "<="];
            f.value_cmp = true;
            if *rev {
                f.rev = true;
                format!("{} {} value_f64", *v as f64 / 4.0, SWAPPED[*op as usize % 6])
            } else {
                format!("value_f64 {} {}", OPS[*op as usize % 6], *v as f64 / 4.0)
            }
        }
        Rest::HostCmp { op, h, rev } => {
            const OPS: [&str; 4] = ["<", "<=", ">", ">="];
            const SWAPPED: [&str; 4] = [">", ">=", "<", "<="];
            f.value_cmp = true;
            if *rev {
                f.rev = true;
                format!("'{}' {} host", HOSTS[*h as usize % 4], SWAPPED[*op as usize % 4])
            } else {
                format!("host {} '{}'", OPS[*op as usize % 4], HOSTS[*h as usize % 4])
            }
        }
        Rest::And(a, b) => match (rest_sql(c, a, f), rest_sql(c, b, f)) {
            (Some(x), Some(y)) => format!("({} AND {})", x, y),
            (Some(x), None) | (None, Some(x)) => x,
            _ => return None,
        },
        Rest::Or(a, b) => match (rest_sql(c, a, f), rest_sql(c, b, f)) {
            (Some(x), Some(y)) => {
                f.rest_or = true;
                format!("({} OR {})", x, y)
            }
            (Some(x), None) | (None, Some(x)) => x,
            _ => return None,
        },
        Rest::Not(a) => match rest_sql(c, a, f) {
            Some(x) => {
                f.rest_not = true;
                format!("NOT ({})", x)
            }
            None => return None,
        },
    })
}

pub fn to_sql(d: &Dataset, now: i64, allow_now_rel: bool, q: &Query) -> (String, Flags) {
    let c = Ctx { d, now, allow_now_rel };
    let mut f = Flags::default();
    let w = win_sql(&c, &q.win, &mut f, false);
    let wh = match rest_sql(&c, &q.rest, &mut f) {
        Some(r) => format!("{} AND {}", w, r),
        None => w,
    };
    let sel = match &q.proj {
        Proj::Star => "SELECT *".to_string(),
        Proj::Cols => {
            if d.custom_label {
                f.custom_label = true;
                "SELECT rid, timestamp, host, zone_x".to_string()
            } else {
                "SELECT rid, timestamp, host".to_string()
            }
        }
        Proj::CountStar => {
            f.agg = true;
            "SELECT count(*) AS n".to_string()
        }
        Proj::Agg { f: func, group } => {
            f.agg = true;
            let fx = ["count(value_f64)", "sum(value_f64)", "min(value_f64)", "max(value_f64)", "avg(value_f64)", "count(DISTINCT host)"][*func as usize % 6];
            match group % 3 {
                0 => format!("SELECT {} AS a", fx),
                1 => format!("SELECT metric_name, {} AS a", fx),
                _ => format!("SELECT host, {} AS a", fx),
            }
        }
        Proj::DistinctMetric => "SELECT DISTINCT metric_name".to_string(),
    };
    let tail = match &q.proj {
        Proj::Agg { group, .. } if group % 3 == 1 => " GROUP BY metric_name",
        Proj::Agg { group, .. } if group % 3 == 2 => " GROUP BY host",
        _ => "",
    };
    (format!("{} FROM metrics WHERE {}{}", sel, wh, tail), f)
}

/// structural class of a query that falls into a recorded known finding
fn known_class(f: &Flags, d: &Dataset, fresh: bool) -> Option<&'static str> {
    let _ = (f, d, fresh);
    None
}

pub fn exec(case: &Case) -> Outcome {
    let rt = rt_plain();
    rt.block_on(async {
        let mut out = Outcome::pass();
        let now = chrono::Utc::now().timestamp_nanos_opt().unwrap();
        let sec_in_min = now.rem_euclid(MIN) / 1_000_000_000;
        let allow_now_rel = (3..45).contains(&sec_in_min);
        let d = &case.data;
        let batches = d.batches(now);
        // every store request takes one scheduler turn, so that a request can be abandoned mid-way
        let store: Arc<dyn object_store::ObjectStore> = Arc::new(crate::qenv::YieldStore(Arc::new(object_store::memory::InMemory::new())));
        let env = match ingest(store, d.backend, &batches, d.schema()).await {
            Ok(e) => e,
            Err(e) => {
                out.set_fail("ingest-failed", e);
                return out;
            }
        };
        if case.compact {
            use cardinalsin::compactor::{Compactor, CompactorConfig};
            let cfg = CompactorConfig { l0_merge_threshold: 2, l1_target_size: 1, l2_target_size: 1, max_levels: 2, sharding_enabled: false, ..Default::default() };
            let before = env.metadata.list_chunks().await.map(|v| v.len()).unwrap_or(0);
            let comp = Compactor::new(cfg, env.store.clone(), env.metadata.clone(), storage_config(), Arc::new(cardinalsin::sharding::ShardMonitor::new(Default::default())));
            if let Err(e) = comp.run_compaction_cycle().await {
                out.set_fail("compaction-cycle-failed", format!("{:?}", e));
                return out;
            }
            let after = env.metadata.list_chunks().await.map(|v| v.len()).unwrap_or(0);
            if after < before {
                out.class("data-compacted-before-querying");
            }
        }
        if case.with_stats && d.backend % 2 == 1 {
            if let Err(e) = record_stats(&env).await {
                out.set_fail("harness:stats-injection-failed", e);
                return out;
            }
            out.class("catalog-carries-column-statistics");
        }
        out.class(if d.ts_type % 2 == 0 { "ts:int64" } else { "ts:timestamp" });
        if d.pre_epoch {
            out.class("data-before-the-epoch");
        }
        if batches.windows(2).any(|w| w[0].schema() != w[1].schema()) {
            out.class("chunks-with-different-columns");
        }
        out.class(format!("age:{}min", AGES_MIN[d.age as usize % 4]));
        let chunks = env.metadata.list_chunks().await.unwrap_or_default();
        let mut shared = None;
        for (qi, q) in case.queries.iter().enumerate() {
            let (sql, flags) = to_sql(d, now, allow_now_rel, q);
            let fresh = case.fresh_each || shared.is_none();
            if fresh {
                shared = match query_node(&env, case.adaptive).await {
                    Ok(n) => Some(n),
                    Err(e) => {
                        out.set_fail("query-node-failed", e);
                        return out;
                    }
                };
            }
            let node = shared.as_ref().unwrap();
            if let Some(k) = known_class(&flags, d, fresh) {
                out.excluded_known = Some(k.to_string());
            }
            // LIMIT: the reference answers the statement without it; the answer must be min(n, all)
            // of those rows
            let limit_n = match (&q.proj, q.limit) {
                (Proj::Star | Proj::Cols, Some(l)) => Some((1 + (l & 0x03) as usize, l & 0x80 != 0)),
                _ => None,
            };
            let unlimited_sql = sql.clone();
            let sql = match limit_n {
                Some((n, ordered)) => {
                    out.class("q:limit");
                    format!("{}{} LIMIT {}", sql, if ordered { " ORDER BY timestamp" } else { "" }, n)
                }
                None => sql,
            };
            let want = reference(&unlimited_sql, &env.all, env.schema.clone()).await;
            if let Some(k) = q.abandoned_after {
                // the node's state after an abandoned request is one more "temperature" the answer must not depend on
                if PollBudget::new(node.query(&sql), 1 + k as u32).await.is_none() {
                    out.class("prior-request-abandoned-mid-way");
                }
            }
            // cold, then warm (same node, same query)
            // ... and once more as a streaming query: its historical phase answers the same statement
            for pass in 0..3 {
                use futures::FutureExt;
                let streamed = async {
                    let chan = cardinalsin::ingester::BroadcastChannel::new(4);
                    let ex = cardinalsin::query::StreamingQueryExecutor::new(node.engine.clone(), env.metadata.clone(), chan.subscribe());
                    let mut rx = ex.execute(&sql).await?;
                    drop(chan);
                    let mut bs = Vec::new();
                    while let Some(b) = rx.recv().await {
                        bs.push(b?);
                    }
                    Ok(bs)
                };
                let got = if pass == 2 {
                    out.class("also-as-streaming-query");
                    match std::panic::AssertUnwindSafe(streamed).catch_unwind().await {
                        Ok(r) => r,
                        Err(_) => Err(cardinalsin::Error::Internal(format!("PANIC {}", take_last_panic().unwrap_or_default()))),
                    }
                } else {
                    drop(streamed);
                    match std::panic::AssertUnwindSafe(node.query(&sql)).catch_unwind().await {
                        Ok(r) => r,
                        Err(_) => Err(cardinalsin::Error::Internal(format!("PANIC {}", take_last_panic().unwrap_or_default()))),
                    }
                };
                let sigbase = |what: &str| -> String {
                    let mut tags: Vec<&str> = Vec::new();
                    if flags.not_window {
                        tags.push("not-window");
                    }
                    if flags.eq_in_or {
                        tags.push("eq-in-or");
                    }
                    if flags.rev_eq {
                        tags.push("rev-eq");
                    }
                    if flags.ts_literal {
                        tags.push("ts-literal");
                    }
                    if flags.to_nanos {
                        tags.push("to-nanos");
                    }
                    if flags.now_rel {
                        tags.push("now-rel");
                    }
                    if flags.custom_label && fresh && pass == 0 {
                        tags.push("custom-label-fresh-node");
                    }
                    format!("{}:{}", what, if tags.is_empty() { "plain".to_string() } else { tags.join("+") })
                };
                match (&want, got) {
                    (Ok(w), Ok(g)) => {
                        let wr = result_rows(w);
                        let gr = result_rows(&g);
                        if let Some((n, _)) = limit_n {
                            // validity: min(n, |all matching|) rows, each a matching row, none twice
                            let mut pool = wr.clone();
                            let mut bad = gr.len() != n.min(wr.len());
                            for r in &gr {
                                match pool.iter().position(|x| x == r) {
                                    Some(i) => {
                                        pool.swap_remove(i);
                                    }
                                    None => bad = true,
                                }
                            }
                            if bad {
                                out.set_fail(sigbase("limit-answer-invalid"), format!("query {} ({} pass): {}\n {} rows match; the answer has {} rows (LIMIT {}), not all of them matching rows", qi, ["cold", "warm", "streaming"][pass], sql, wr.len(), gr.len(), n));
                                return out;
                            }
                            continue;
                        }
                        if wr != gr {
                            let missing = wr.iter().filter(|r| !gr.contains(r)).count();
                            let what = if gr.len() < wr.len() || missing > 0 { "rows-missing" } else { "rows-surplus" };
                            out.set_fail(
                                sigbase(what),
                                format!("query {} ({} pass): {}\n expected {} rows, got {} rows; e.g. expected {:?} got {:?}", qi, ["cold", "warm", "streaming"][pass], sql, wr.len(), gr.len(), wr.first(), gr.first()),
                            );
                            return out;
                        }
                        if !wr.is_empty() {
                            // non-trivial: non-empty answer while some chunk lies wholly outside the window or outside the last hour
                            let (lo, hi) = window_hull(d, now, &q.win);
                            let outside = chunks.iter().any(|c| c.max_timestamp < lo || c.min_timestamp > hi || c.max_timestamp < now - HOUR);
                            if outside {
                                out.nontrivial = true;
                            }
                        }
                    }
                    (Err(_), Err(_)) => {
                        out.class("both-error");
                    }
                    (Ok(w), Err(e)) => {
                        // Recorded known finding: the metrics table only has the columns of the chunks bound
                        // for a statement (the selected ones, or - in the pruning pre-pass - those of the
                        // statement before); a label that only other chunks store is "not found" although
                        // over everything ingested the statement has an answer (NULL for rows without
                        // the label).  Structural class: chunks with different columns, and the error
                        // says that a column of the data set is not a field of the table.
                        let etxt = format!("{:?}", e);
                        if d.hetero % 2 == 1 && etxt.contains("FieldNotFound") && etxt.contains("name: \"host\" }, valid_fields") {
                            out.set_fail("error-where-reference-answers:label-not-stored-in-the-bound-chunks", format!("query {}: {}\n SUT error: {:?}; reference returned {} rows", qi, sql, e, result_rows(w).len()));
                            return out;
                        }
                        out.set_fail(sigbase("error-where-reference-answers"), format!("query {}: {}\n SUT error: {:?}; reference returned {} rows", qi, sql, e, result_rows(w).len()));
                        return out;
                    }
                    (Err(e), Ok(g)) => {
                        out.set_fail(sigbase("answer-where-reference-errors"), format!("query {}: {}\n reference error: {}; SUT returned {} rows", qi, sql, e, result_rows(&g).len()));
                        return out;
                    }
                }
            }
            for (flag, name) in [
                (flags.not_window, "q:not-window"),
                (flags.or_window, "q:or-window"),
                (flags.in_list, "q:timestamp-in-list-or-equality-chain"),
                (flags.value_cmp, "q:value-or-label-comparison-any-operator"),
                (flags.and_window, "q:and-of-windows"),
                (flags.eq, "q:eq"),
                (flags.rev, "q:reversed-operands"),
                (flags.between, "q:between"),
                (flags.ts_literal, "q:timestamp-literal"),
                (flags.to_nanos, "q:to_timestamp_nanos"),
                (flags.now_rel, "q:now-relative"),
                (flags.custom_label, "q:custom-label"),
                (flags.rest_or, "q:label-or"),
                (flags.rest_not, "q:label-not"),
                (flags.agg, "q:aggregate"),
            ] {
                if flag {
                    out.class(name);
                }
            }
            out.count("queries", 1);
        }
        out
    })
}

/// write true min / max / has_nulls statistics of host, metric_name, value_f64 (and zone_x) into the catalog
async fn record_stats(env: &Env) -> Result<(), String> {
    use cardinalsin::metadata::{ColumnStats, ObjectStoreMetadataClient, ObjectStoreMetadataConfig};
    let client = ObjectStoreMetadataClient::new(env.store.clone(), ObjectStoreMetadataConfig::default());
    let mut md = client.load_chunk_metadata().await.map_err(|e| format!("{:?}", e))?;
    for (path, ext) in md.iter_mut() {
        let data = env.store.get(&path.clone().into()).await.map_err(|e| e.to_string())?.bytes().await.map_err(|e| e.to_string())?;
        let batches = crate::rows::decode_parquet(data)?;
        for col in ["host", "metric_name", "zone_x", "value_f64"] {
            let mut vals: Vec<String> = Vec::new();
            let mut fvals: Vec<f64> = Vec::new();
            let mut nulls = false;
            let mut present = false;
            for b in &batches {
                if let Some(c) = b.column_by_name(col) {
                    present = true;
                    for r in 0..b.num_rows() {
                        match crate::rows::cell(c, r, false) {
                            None => nulls = true,
                            Some(v) => {
                                if col == "value_f64" {
                                    use arrow_array::cast::AsArray;
                                    fvals.push(c.as_primitive::<arrow_array::types::Float64Type>().value(r));
                                } else {
                                    vals.push(v.trim_start_matches("S:").to_string());
                                }
                            }
                        }
                    }
                }
            }
            if !present {
                continue;
            }
            if col == "value_f64" {
                if fvals.is_empty() {
                    continue;
                }
                let mn = fvals.iter().cloned().fold(f64::INFINITY, f64::min);
                let mx = fvals.iter().cloned().fold(f64::NEG_INFINITY, f64::max);
                ext.column_stats.insert(col.to_string(), ColumnStats { min: serde_json::json!(mn), max: serde_json::json!(mx), has_nulls: nulls });
            } else {
                if vals.is_empty() {
                    continue;
                }
                vals.sort_by(|a, b| a.as_bytes().cmp(b.as_bytes()));
                ext.column_stats.insert(col.to_string(), ColumnStats { min: serde_json::json!(vals[0]), max: serde_json::json!(vals[vals.len() - 1]), has_nulls: nulls });
            }
        }
    }
    client.save_chunk_metadata(&md).await.map_err(|e| format!("{:?}", e))
}

/// hull [lo, hi] of the window (for the non-triviality rule only)
fn window_hull(d: &Dataset, now: i64, w: &Win) -> (i64, i64) {
    let c = Ctx { d, now, allow_now_rel: false };
    match w {
        Win::Range { lo, hi, .. } | Win::Between { lo, hi } | Win::NotOpp { lo, hi } => (bound_value(&c, lo), bound_value(&c, hi)),
        Win::Eq { b, .. } => (bound_value(&c, b), bound_value(&c, b)),
        Win::Or(a, b) | Win::And(a, b) => {
            let (l1, h1) = window_hull(d, now, a);
            let (l2, h2) = window_hull(d, now, b);
            (l1.min(l2), h1.max(h2))
        }
        Win::In(bs) | Win::OrEqs(bs) => {
            let vs: Vec<i64> = bs.iter().map(|b| bound_value(&c, b)).collect();
            (vs.iter().copied().min().unwrap_or(0), vs.iter().copied().max().unwrap_or(0))
        }
    }
}

// ---- process age: nothing may be frozen at the first statement a process analyses ----------

#[derive(Clone, Debug, Serialize, Deserialize)]
pub struct AgedCase {
    pub rows: u8,
    pub chunks: u8,
    pub backend: u8,
    /// which now()-relative window shapes to ask
    pub shapes: Vec<u8>,
}

pub fn exec_aged(case: &AgedCase) -> Outcome {
    let rt = rt_plain();
    rt.block_on(async {
        let mut out = Outcome::pass();
        out.nontrivial = true;
        // 1. a first statement with a now()-relative bound is analysed in this process
        {
            let d0 = Dataset { ts_type: 1, age: 3, span_h: 0, rows: vec![QRow { minute: 1, jitter: 0, metric: 0, host: None, zone: None, value: 1, chunk: 0 }], custom_label: false, backend: 0, hetero: 0, pre_epoch: false };
            let now0 = chrono::Utc::now().timestamp_nanos_opt().unwrap();
            let store: Arc<dyn object_store::ObjectStore> = Arc::new(object_store::memory::InMemory::new());
            if let Ok(env0) = ingest(store, 0, &d0.batches(now0), d0.schema()).await {
                if let Ok(n0) = query_node(&env0, false).await {
                    let _ = n0.query("SELECT count(*) FROM metrics WHERE timestamp >= now() - interval '2 days' AND timestamp <= now()").await;
                }
            }
        }
        // 2. the process ages
        std::thread::sleep(std::time::Duration::from_millis(1100));
        // 3. data stamped after that first statement (0.3 s .. ~1 s old)
        let now = chrono::Utc::now().timestamp_nanos_opt().unwrap();
        let n = 2 + (case.rows % 6) as usize;
        let nchunks = 1 + (case.chunks % 3) as usize;
        let schema = Dataset { ts_type: 1, age: 0, span_h: 0, rows: vec![], custom_label: false, backend: case.backend, hetero: 0, pre_epoch: false }.schema();
        let mut batches = Vec::new();
        for c in 0..nchunks {
            let idx: Vec<usize> = (0..n).filter(|i| i % nchunks == c).collect();
            if idx.is_empty() {
                continue;
            }
            use arrow_array::{ArrayRef, Float64Array, Int64Array, RecordBatch, StringArray, TimestampNanosecondArray};
            let ts: Vec<i64> = idx.iter().map(|i| now - 300_000_000 - (*i as i64) * 100_000_000).collect();
            let cols: Vec<ArrayRef> = vec![
                Arc::new(TimestampNanosecondArray::from(ts).with_timezone("UTC")),
                Arc::new(StringArray::from(idx.iter().map(|i| QMETRICS[i % 3]).collect::<Vec<_>>())),
                Arc::new(StringArray::from(idx.iter().map(|i| Some(HOSTS[i % 4])).collect::<Vec<_>>())),
                Arc::new(Float64Array::from(idx.iter().map(|i| Some(*i as f64)).collect::<Vec<_>>())),
                Arc::new(Int64Array::from(idx.iter().map(|i| *i as i64).collect::<Vec<_>>())),
            ];
            batches.push(RecordBatch::try_new(schema.clone(), cols).unwrap());
        }
        let store: Arc<dyn object_store::ObjectStore> = Arc::new(object_store::memory::InMemory::new());
        let env = match ingest(store, case.backend, &batches, schema.clone()).await {
            Ok(e) => e,
            Err(e) => {
                out.set_fail("ingest-failed", e);
                return out;
            }
        };
        let node = query_node(&env, false).await.expect("node");
        for sh in &case.shapes {
            let w = match sh % 5 {
                0 => "timestamp >= now() - interval '1 hour' AND timestamp <= now()",
                1 => "now() >= timestamp AND timestamp > now() - interval '10 minutes'",
                2 => "timestamp BETWEEN now() - interval '1 day' AND now()",
                3 => "timestamp <= now() + interval '1 minute' AND timestamp >= now() - interval '5 minutes'",
                _ => "NOT (timestamp > now()) AND NOT (timestamp < now() - interval '30 minutes')",
            };
            let sql = format!("SELECT rid FROM metrics WHERE {}", w);
            let want = reference(&sql, &env.all, schema.clone()).await;
            let got = node.query(&sql).await;
            match (want, got) {
                (Ok(w2), Ok(g)) => {
                    let (wr, gr) = (result_rows(&w2), result_rows(&g));
                    if wr != gr {
                        out.set_fail("rows-missing:now-relative-window-in-an-aged-process", format!("{}\n expected {} rows, got {} (the process analysed its first statement 1.1 s before the data was written)", sql, wr.len(), gr.len()));
                        return out;
                    }
                }
                (Ok(_), Err(e)) => {
                    out.set_fail("error-where-reference-answers:aged-process", format!("{}: {:?}", sql, e));
                    return out;
                }
                _ => {}
            }
        }
        out
    })
}

fn bound() -> impl Strategy<Value = Bound> {
    (any::<u16>(), prop_oneof![3 => Just(0i8), 1 => Just(-1i8), 1 => Just(1i8)], 0u8..3).prop_map(|(minute, adj, style)| Bound { minute, adj, style })
}

fn win() -> impl Strategy<Value = Win> {
    let leaf = prop_oneof![
        6 => (bound(), any::<bool>(), prop::bool::weighted(0.25), bound(), any::<bool>(), prop::bool::weighted(0.25)).prop_map(|(a, lo_strict, lo_rev, b, hi_strict, hi_rev)| {
            let (lo, hi) = if a.minute <= b.minute { (a, b) } else { (b, a) };
            Win::Range { lo, lo_strict, lo_rev, hi, hi_strict, hi_rev }
        }),
        2 => (bound(), bound()).prop_map(|(a, b)| { let (lo, hi) = if a.minute <= b.minute { (a, b) } else { (b, a) }; Win::Between { lo, hi } }),
        2 => (bound(), prop::bool::weighted(0.2)).prop_map(|(b, rev)| Win::Eq { b, rev }),
        1 => (bound(), bound()).prop_map(|(a, b)| { let (lo, hi) = if a.minute <= b.minute { (a, b) } else { (b, a) }; Win::NotOpp { lo, hi } }),
        1 => prop::collection::vec(bound(), 1..8).prop_map(Win::In),
        1 => prop::collection::vec(bound(), 2..8).prop_map(Win::OrEqs),
    ];
    leaf.prop_recursive(2, 4, 2, |inner| prop_oneof![3 => (inner.clone(), inner.clone()).prop_map(|(a, b)| Win::Or(Box::new(a), Box::new(b))), 1 => (inner.clone(), inner).prop_map(|(a, b)| Win::And(Box::new(a), Box::new(b)))])
}

fn rest() -> impl Strategy<Value = Rest> {
    let leaf = prop_oneof![
        4 => Just(Rest::None),
        2 => (0u8..4).prop_map(Rest::HostEq),
        1 => (0u8..4).prop_map(Rest::HostNe),
        1 => Just(Rest::HostNull),
        2 => (0u8..3).prop_map(Rest::MetricEq),
        1 => prop::collection::vec(0u8..3, 1..3).prop_map(Rest::MetricIn),
        1 => (0u8..3).prop_map(Rest::ZoneEq),
        1 => (-20i8..20).prop_map(Rest::ValueGt),
        3 => (0u8..6, -20i8..20, prop::bool::weighted(0.4)).prop_map(|(op, v, rev)| Rest::ValueCmp { op, v, rev }),
        1 => (0u8..4, 0u8..4, prop::bool::weighted(0.4)).prop_map(|(op, h, rev)| Rest::HostCmp { op, h, rev }),
    ];
    leaf.prop_recursive(2, 6, 2, |inner| {
        prop_oneof![
            (inner.clone(), inner.clone()).prop_map(|(a, b)| Rest::And(Box::new(a), Box::new(b))),
            (inner.clone(), inner.clone()).prop_map(|(a, b)| Rest::Or(Box::new(a), Box::new(b))),
            inner.prop_map(|a| Rest::Not(Box::new(a))),
        ]
    })
}

fn proj() -> impl Strategy<Value = Proj> {
    prop_oneof![3 => Just(Proj::Star), 2 => Just(Proj::Cols), 1 => Just(Proj::CountStar), 3 => (0u8..6, 0u8..3).prop_map(|(f, group)| Proj::Agg { f, group }), 1 => Just(Proj::DistinctMetric)]
}

fn strategy(t: Tier) -> BoxedStrategy<Case> {
    ((dataset(t.pick(40usize, 60usize)), prop::bool::weighted(0.25), prop::bool::weighted(0.15)).prop_map(|(mut d, h, pre)| { d.hetero = h as u8; d.pre_epoch = pre; d }), prop::collection::vec((win(), rest(), proj(), prop::option::weighted(0.15, 0u8..40), prop::option::weighted(0.35, any::<u8>())).prop_map(|(win, rest, proj, abandoned_after, limit)| Query { win, rest, proj, abandoned_after, limit }), 1..t.pick(6usize, 10usize)), any::<bool>(), prop::bool::weighted(0.3), prop::bool::weighted(0.3), prop::bool::weighted(0.4))
        .prop_map(|(data, queries, fresh_each, adaptive, compact, with_stats)| Case { data, queries, fresh_each, adaptive, compact, with_stats })
        .boxed()
}

pub fn def() -> PropDef {
    PropDef {
        id: "C04",
        level: "exploration",
        rule: "datasets of 4-40 (thorough 60) rows over 1-6 hours, newest row 2 min / 95 min / 5 h / 30 h old relative to the wall clock, 3 metrics, nullable host label, optional label outside the built-in schema, exactly representable values, Int64 or Timestamp(ns) timestamps, rows split into 1-6 chunks through the real Ingester, Local or object-store catalog; 1-5 (9) queries each: WHERE = window AND rest, window finite by construction (>=/>/<=/< in either operand order, BETWEEN, equality in either order, OR of windows / equalities, NOT of the opposite bound; integer literals for Int64 data, TIMESTAMP '..' / to_timestamp_nanos() / now()-interval for Timestamp data; bounds on / one ns off row timestamps), rest = label / metric / value predicates with AND/OR/NOT, projection in {*, columns, count(*), count/sum/min/max/avg/count distinct with optional GROUP BY, DISTINCT}; each query runs cold and warm, on a fresh or a reused node, adaptive indexing on/off; 30 % of the datasets go through a real compaction cycle first (merged multi-hour chunks), 40 % of the object-store catalogs carry true per-column statistics (so the SQL -> predicate conversion and statistics pruning take part). Oracle = same SQL on a MemTable of all ingested rows, multiset equality. aged-process: a first now()-relative statement is analysed, the process ages 1.1 s, then data stamped after that instant is ingested and asked for with now()-relative windows (nothing may be frozen at the first statement of a process). Non-trivial = non-empty true answer while some chunk lies wholly outside the window or outside the last hour.",
        assumptions: &["DataFusion's evaluator is the trusted reference", "now()-relative bounds are only generated when the wall clock is 3-45 s into a minute, so the two evaluations of now() cannot straddle a row"],
        subs: || {
            vec![
                Box::new(Sub::<Case> { name: "differential", cases: |t| t.scale(5_000, 8), strategy, exec }),
                Box::new(Sub::<AgedCase> {
                    name: "aged-process",
                    cases: |t| t.pick(32, 160),
                    strategy: |_| (0u8..6, 0u8..3, 0u8..2, prop::collection::vec(0u8..5, 1..4)).prop_map(|(rows, chunks, backend, shapes)| AgedCase { rows, chunks, backend, shapes }).boxed(),
                    exec: exec_aged,
                }),
            ]
        },
    }
}
