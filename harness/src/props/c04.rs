//! C04 — query answers equal a full scan of everything ingested.
//!
//! Differential: `QueryNode::query(sql)` vs. the same SQL on a MemTable holding
//! every ingested row (fresh DataFusion context).  SQL comes from a grammar
//! whose WHERE is `window AND rest`; `window` confines the timestamp to a
//! finite interval *by construction* (the property's precondition).

use crate::core::*;
use crate::qenv::*;
use crate::util::*;
use proptest::prelude::*;
use serde::{Deserialize, Serialize};
use std::sync::Arc;

#[derive(Clone, Debug, Serialize, Deserialize)]
pub struct Bound {
    pub minute: u16,
    pub adj: i8,
    /// literal style for Timestamp-typed data: 0 TIMESTAMP '...', 1 to_timestamp_nanos(n), 2 now() - interval
    pub style: u8,
}

#[derive(Clone, Debug, Serialize, Deserialize)]
pub enum Win {
    Range { lo: Bound, lo_strict: bool, lo_rev: bool, hi: Bound, hi_strict: bool, hi_rev: bool },
    Between { lo: Bound, hi: Bound },
    Eq { b: Bound, rev: bool },
    Or(Box<Win>, Box<Win>),
    /// NOT (ts < lo) AND NOT (ts > hi)
    NotOpp { lo: Bound, hi: Bound },
}

#[derive(Clone, Debug, Serialize, Deserialize)]
pub enum Rest {
    None,
    HostEq(u8),
    HostNe(u8),
    HostNull,
    MetricEq(u8),
    MetricIn(Vec<u8>),
    ZoneEq(u8),
    ValueGt(i8),
    And(Box<Rest>, Box<Rest>),
    Or(Box<Rest>, Box<Rest>),
    Not(Box<Rest>),
}

#[derive(Clone, Debug, Serialize, Deserialize)]
pub enum Proj {
    Star,
    Cols,
    CountStar,
    Agg { f: u8, group: u8 },
    DistinctMetric,
}

#[derive(Clone, Debug, Serialize, Deserialize)]
pub struct Query {
    pub win: Win,
    pub rest: Rest,
    pub proj: Proj,
}

#[derive(Clone, Debug, Serialize, Deserialize)]
pub struct Case {
    pub data: Dataset,
    pub queries: Vec<Query>,
    /// a fresh query node per query (otherwise one node is reused and warms up)
    pub fresh_each: bool,
    pub adaptive: bool,
}

struct Ctx<'a> {
    d: &'a Dataset,
    now: i64,
    allow_now_rel: bool,
}

fn bound_value(c: &Ctx, b: &Bound) -> i64 {
    c.d.start(c.now) + (b.minute as i64 % (c.d.span_min() + 1)) * MIN + (b.adj as i64).clamp(-1, 1)
}

fn lit(c: &Ctx, b: &Bound, flags: &mut Flags) -> String {
    let v = bound_value(c, b);
    if c.d.ts_type % 2 == 0 {
        return format!("{}", v);
    }
    match b.style % 3 {
        2 if c.allow_now_rel => {
            // now() - interval 'K minutes': lies strictly between minute marks
            let k = ((c.now - v) / MIN).max(0);
            flags.now_rel = true;
            format!("now() - interval '{} minutes'", k)
        }
        1 => {
            flags.to_nanos = true;
            format!("to_timestamp_nanos({})", v)
        }
        _ => {
            flags.ts_literal = true;
            let dt = chrono::DateTime::<chrono::Utc>::from_timestamp(v.div_euclid(1_000_000_000), v.rem_euclid(1_000_000_000) as u32).unwrap();
            format!("TIMESTAMP '{}'", dt.format("%Y-%m-%d %H:%M:%S%.9f"))
        }
    }
}

#[derive(Default, Clone, Debug)]
pub struct Flags {
    pub now_rel: bool,
    pub to_nanos: bool,
    pub ts_literal: bool,
    pub not_window: bool,
    pub or_window: bool,
    pub eq_in_or: bool,
    pub eq: bool,
    pub rev: bool,
    pub rev_eq: bool,
    pub between: bool,
    pub custom_label: bool,
    pub rest_or: bool,
    pub rest_not: bool,
    pub agg: bool,
}

fn win_sql(c: &Ctx, w: &Win, f: &mut Flags, in_or: bool) -> String {
    match w {
        Win::Range { lo, lo_strict, lo_rev, hi, hi_strict, hi_rev } => {
            let l = lit(c, lo, f);
            let h = lit(c, hi, f);
            if *lo_rev || *hi_rev {
                f.rev = true;
            }
            let a = if *lo_rev { format!("{} {} timestamp", l, if *lo_strict { "<" } else { "<=" }) } else { format!("timestamp {} {}", if *lo_strict { ">" } else { ">=" }, l) };
            let b = if *hi_rev { format!("{} {} timestamp", h, if *hi_strict { ">" } else { ">=" }) } else { format!("timestamp {} {}", if *hi_strict { "<" } else { "<=" }, h) };
            format!("({} AND {})", a, b)
        }
        Win::Between { lo, hi } => {
            f.between = true;
            format!("(timestamp BETWEEN {} AND {})", lit(c, lo, f), lit(c, hi, f))
        }
        Win::Eq { b, rev } => {
            f.eq = true;
            if in_or {
                f.eq_in_or = true;
            }
            if *rev {
                f.rev_eq = true;
                format!("({} = timestamp)", lit(c, b, f))
            } else {
                format!("(timestamp = {})", lit(c, b, f))
            }
        }
        Win::Or(a, b) => {
            f.or_window = true;
            format!("({} OR {})", win_sql(c, a, f, true), win_sql(c, b, f, true))
        }
        Win::NotOpp { lo, hi } => {
            f.not_window = true;
            format!("(NOT (timestamp < {}) AND NOT (timestamp > {}))", lit(c, lo, f), lit(c, hi, f))
        }
    }
}

fn rest_sql(c: &Ctx, r: &Rest, f: &mut Flags) -> Option<String> {
    Some(match r {
        Rest::None => return None,
        Rest::HostEq(h) => format!("host = '{}'", HOSTS[*h as usize % 4]),
        Rest::HostNe(h) => format!("host <> '{}'", HOSTS[*h as usize % 4]),
        Rest::HostNull => "host IS NULL".to_string(),
        Rest::MetricEq(m) => format!("metric_name = '{}'", QMETRICS[*m as usize % 3]),
        Rest::MetricIn(ms) => format!("metric_name IN ({})", ms.iter().map(|m| format!("'{}'", QMETRICS[*m as usize % 3])).collect::<Vec<_>>().join(", ")),
        Rest::ZoneEq(z) => {
            if c.d.custom_label {
                f.custom_label = true;
                format!("zone_x = '{}'", ZONES[*z as usize % 3])
            } else {
                format!("host = '{}'", HOSTS[*z as usize % 4])
            }
        }
        Rest::ValueGt(v) => format!("value_f64 > {}", *v as f64 / 4.0),
        Rest::And(a, b) => match (rest_sql(c, a, f), rest_sql(c, b, f)) {
            (Some(x), Some(y)) => format!("({} AND {})", x, y),
            (Some(x), None) | (None, Some(x)) => x,
            _ => return None,
        },
        Rest::Or(a, b) => match (rest_sql(c, a, f), rest_sql(c, b, f)) {
            (Some(x), Some(y)) => {
                f.rest_or = true;
                format!("({} OR {})", x, y)
            }
            (Some(x), None) | (None, Some(x)) => x,
            _ => return None,
        },
        Rest::Not(a) => match rest_sql(c, a, f) {
            Some(x) => {
                f.rest_not = true;
                format!("NOT ({})", x)
            }
            None => return None,
        },
    })
}

pub fn to_sql(d: &Dataset, now: i64, allow_now_rel: bool, q: &Query) -> (String, Flags) {
    let c = Ctx { d, now, allow_now_rel };
    let mut f = Flags::default();
    let w = win_sql(&c, &q.win, &mut f, false);
    let wh = match rest_sql(&c, &q.rest, &mut f) {
        Some(r) => format!("{} AND {}", w, r),
        None => w,
    };
    let sel = match &q.proj {
        Proj::Star => "SELECT *".to_string(),
        Proj::Cols => {
            if d.custom_label {
                f.custom_label = true;
                "SELECT rid, timestamp, host, zone_x".to_string()
            } else {
                "SELECT rid, timestamp, host".to_string()
            }
        }
        Proj::CountStar => {
            f.agg = true;
            "SELECT count(*) AS n".to_string()
        }
        Proj::Agg { f: func, group } => {
            f.agg = true;
            let fx = ["count(value_f64)", "sum(value_f64)", "min(value_f64)", "max(value_f64)", "avg(value_f64)", "count(DISTINCT host)"][*func as usize % 6];
            match group % 3 {
                0 => format!("SELECT {} AS a", fx),
                1 => format!("SELECT metric_name, {} AS a", fx),
                _ => format!("SELECT host, {} AS a", fx),
            }
        }
        Proj::DistinctMetric => "SELECT DISTINCT metric_name".to_string(),
    };
    let tail = match &q.proj {
        Proj::Agg { group, .. } if group % 3 == 1 => " GROUP BY metric_name",
        Proj::Agg { group, .. } if group % 3 == 2 => " GROUP BY host",
        _ => "",
    };
    (format!("{} FROM metrics WHERE {}{}", sel, wh, tail), f)
}

/// structural class of a query that falls into a recorded known finding
fn known_class(f: &Flags, d: &Dataset, fresh: bool) -> Option<&'static str> {
    let _ = (f, d, fresh);
    None
}

pub fn exec(case: &Case) -> Outcome {
    let rt = rt_plain();
    rt.block_on(async {
        let mut out = Outcome::pass();
        let now = chrono::Utc::now().timestamp_nanos_opt().unwrap();
        let sec_in_min = now.rem_euclid(MIN) / 1_000_000_000;
        let allow_now_rel = (3..45).contains(&sec_in_min);
        let d = &case.data;
        let batches = d.batches(now);
        let store: Arc<dyn object_store::ObjectStore> = Arc::new(object_store::memory::InMemory::new());
        let env = match ingest(store, d.backend, &batches, d.schema()).await {
            Ok(e) => e,
            Err(e) => {
                out.set_fail("ingest-failed", e);
                return out;
            }
        };
        out.class(if d.ts_type % 2 == 0 { "ts:int64" } else { "ts:timestamp" });
        out.class(format!("age:{}min", AGES_MIN[d.age as usize % 4]));
        let chunks = env.metadata.list_chunks().await.unwrap_or_default();
        let mut shared = None;
        for (qi, q) in case.queries.iter().enumerate() {
            let (sql, flags) = to_sql(d, now, allow_now_rel, q);
            let fresh = case.fresh_each || shared.is_none();
            if fresh {
                shared = match query_node(&env, case.adaptive).await {
                    Ok(n) => Some(n),
                    Err(e) => {
                        out.set_fail("query-node-failed", e);
                        return out;
                    }
                };
            }
            let node = shared.as_ref().unwrap();
            if let Some(k) = known_class(&flags, d, fresh) {
                out.excluded_known = Some(k.to_string());
            }
            let want = reference(&sql, &env.all, env.schema.clone()).await;
            // cold, then warm (same node, same query)
            for pass in 0..2 {
                use futures::FutureExt;
                let got = match std::panic::AssertUnwindSafe(node.query(&sql)).catch_unwind().await {
                    Ok(r) => r,
                    Err(_) => Err(cardinalsin::Error::Internal(format!("PANIC {}", take_last_panic().unwrap_or_default()))),
                };
                let sigbase = |what: &str| -> String {
                    let mut tags: Vec<&str> = Vec::new();
                    if flags.not_window {
                        tags.push("not-window");
                    }
                    if flags.eq_in_or {
                        tags.push("eq-in-or");
                    }
                    if flags.rev_eq {
                        tags.push("rev-eq");
                    }
                    if flags.ts_literal {
                        tags.push("ts-literal");
                    }
                    if flags.to_nanos {
                        tags.push("to-nanos");
                    }
                    if flags.now_rel {
                        tags.push("now-rel");
                    }
                    if flags.custom_label && fresh && pass == 0 {
                        tags.push("custom-label-fresh-node");
                    }
                    format!("{}:{}", what, if tags.is_empty() { "plain".to_string() } else { tags.join("+") })
                };
                match (&want, got) {
                    (Ok(w), Ok(g)) => {
                        let wr = result_rows(w);
                        let gr = result_rows(&g);
                        if wr != gr {
                            let missing = wr.iter().filter(|r| !gr.contains(r)).count();
                            let what = if gr.len() < wr.len() || missing > 0 { "rows-missing" } else { "rows-surplus" };
                            out.set_fail(
                                sigbase(what),
                                format!("query {} ({} pass): {}\n expected {} rows, got {} rows; e.g. expected {:?} got {:?}", qi, if pass == 0 { "cold" } else { "warm" }, sql, wr.len(), gr.len(), wr.first(), gr.first()),
                            );
                            return out;
                        }
                        if !wr.is_empty() {
                            // non-trivial: non-empty answer while some chunk lies wholly outside the window or outside the last hour
                            let (lo, hi) = window_hull(d, now, &q.win);
                            let outside = chunks.iter().any(|c| c.max_timestamp < lo || c.min_timestamp > hi || c.max_timestamp < now - HOUR);
                            if outside {
                                out.nontrivial = true;
                            }
                        }
                    }
                    (Err(_), Err(_)) => {
                        out.class("both-error");
                    }
                    (Ok(w), Err(e)) => {
                        out.set_fail(sigbase("error-where-reference-answers"), format!("query {}: {}\n SUT error: {:?}; reference returned {} rows", qi, sql, e, result_rows(w).len()));
                        return out;
                    }
                    (Err(e), Ok(g)) => {
                        out.set_fail(sigbase("answer-where-reference-errors"), format!("query {}: {}\n reference error: {}; SUT returned {} rows", qi, sql, e, result_rows(&g).len()));
                        return out;
                    }
                }
            }
            for (flag, name) in [
                (flags.not_window, "q:not-window"),
                (flags.or_window, "q:or-window"),
                (flags.eq, "q:eq"),
                (flags.rev, "q:reversed-operands"),
                (flags.between, "q:between"),
                (flags.ts_literal, "q:timestamp-literal"),
                (flags.to_nanos, "q:to_timestamp_nanos"),
                (flags.now_rel, "q:now-relative"),
                (flags.custom_label, "q:custom-label"),
                (flags.rest_or, "q:label-or"),
                (flags.rest_not, "q:label-not"),
                (flags.agg, "q:aggregate"),
            ] {
                if flag {
                    out.class(name);
                }
            }
            out.count("queries", 1);
        }
        out
    })
}

/// hull [lo, hi] of the window (for the non-triviality rule only)
fn window_hull(d: &Dataset, now: i64, w: &Win) -> (i64, i64) {
    let c = Ctx { d, now, allow_now_rel: false };
    match w {
        Win::Range { lo, hi, .. } | Win::Between { lo, hi } | Win::NotOpp { lo, hi } => (bound_value(&c, lo), bound_value(&c, hi)),
        Win::Eq { b, .. } => (bound_value(&c, b), bound_value(&c, b)),
        Win::Or(a, b) => {
            let (l1, h1) = window_hull(d, now, a);
            let (l2, h2) = window_hull(d, now, b);
            (l1.min(l2), h1.max(h2))
        }
    }
}

fn bound() -> impl Strategy<Value = Bound> {
    (any::<u16>(), prop_oneof![3 => Just(0i8), 1 => Just(-1i8), 1 => Just(1i8)], 0u8..3).prop_map(|(minute, adj, style)| Bound { minute, adj, style })
}

fn win() -> impl Strategy<Value = Win> {
    let leaf = prop_oneof![
        6 => (bound(), any::<bool>(), prop::bool::weighted(0.25), bound(), any::<bool>(), prop::bool::weighted(0.25)).prop_map(|(a, lo_strict, lo_rev, b, hi_strict, hi_rev)| {
            let (lo, hi) = if a.minute <= b.minute { (a, b) } else { (b, a) };
            Win::Range { lo, lo_strict, lo_rev, hi, hi_strict, hi_rev }
        }),
        2 => (bound(), bound()).prop_map(|(a, b)| { let (lo, hi) = if a.minute <= b.minute { (a, b) } else { (b, a) }; Win::Between { lo, hi } }),
        2 => (bound(), prop::bool::weighted(0.2)).prop_map(|(b, rev)| Win::Eq { b, rev }),
        1 => (bound(), bound()).prop_map(|(a, b)| { let (lo, hi) = if a.minute <= b.minute { (a, b) } else { (b, a) }; Win::NotOpp { lo, hi } }),
    ];
    leaf.prop_recursive(2, 4, 2, |inner| (inner.clone(), inner).prop_map(|(a, b)| Win::Or(Box::new(a), Box::new(b))))
}

fn rest() -> impl Strategy<Value = Rest> {
    let leaf = prop_oneof![
        4 => Just(Rest::None),
        2 => (0u8..4).prop_map(Rest::HostEq),
        1 => (0u8..4).prop_map(Rest::HostNe),
        1 => Just(Rest::HostNull),
        2 => (0u8..3).prop_map(Rest::MetricEq),
        1 => prop::collection::vec(0u8..3, 1..3).prop_map(Rest::MetricIn),
        1 => (0u8..3).prop_map(Rest::ZoneEq),
        1 => (-20i8..20).prop_map(Rest::ValueGt),
    ];
    leaf.prop_recursive(2, 6, 2, |inner| {
        prop_oneof![
            (inner.clone(), inner.clone()).prop_map(|(a, b)| Rest::And(Box::new(a), Box::new(b))),
            (inner.clone(), inner.clone()).prop_map(|(a, b)| Rest::Or(Box::new(a), Box::new(b))),
            inner.prop_map(|a| Rest::Not(Box::new(a))),
        ]
    })
}

fn proj() -> impl Strategy<Value = Proj> {
    prop_oneof![3 => Just(Proj::Star), 2 => Just(Proj::Cols), 1 => Just(Proj::CountStar), 3 => (0u8..6, 0u8..3).prop_map(|(f, group)| Proj::Agg { f, group }), 1 => Just(Proj::DistinctMetric)]
}

fn strategy(t: Tier) -> BoxedStrategy<Case> {
    (dataset(t.pick(40usize, 60usize)), prop::collection::vec((win(), rest(), proj()).prop_map(|(win, rest, proj)| Query { win, rest, proj }), 1..t.pick(6usize, 10usize)), any::<bool>(), prop::bool::weighted(0.3))
        .prop_map(|(data, queries, fresh_each, adaptive)| Case { data, queries, fresh_each, adaptive })
        .boxed()
}

pub fn def() -> PropDef {
    PropDef {
        id: "C04",
        level: "exploration",
        rule: "datasets of 4-40 (thorough 60) rows over 1-6 hours, newest row 2 min / 95 min / 5 h / 30 h old relative to the wall clock, 3 metrics, nullable host label, optional label outside the built-in schema, exactly representable values, Int64 or Timestamp(ns) timestamps, rows split into 1-6 chunks through the real Ingester, Local or object-store catalog; 1-5 (9) queries each: WHERE = window AND rest, window finite by construction (>=/>/<=/< in either operand order, BETWEEN, equality in either order, OR of windows / equalities, NOT of the opposite bound; integer literals for Int64 data, TIMESTAMP '..' / to_timestamp_nanos() / now()-interval for Timestamp data; bounds on / one ns off row timestamps), rest = label / metric / value predicates with AND/OR/NOT, projection in {*, columns, count(*), count/sum/min/max/avg/count distinct with optional GROUP BY, DISTINCT}; each query runs cold and warm, on a fresh or a reused node, adaptive indexing on/off. Oracle = same SQL on a MemTable of all ingested rows, multiset equality. Non-trivial = non-empty true answer while some chunk lies wholly outside the window or outside the last hour.",
        assumptions: &["DataFusion's evaluator is the trusted reference", "now()-relative bounds are only generated when the wall clock is 3-45 s into a minute, so the two evaluations of now() cannot straddle a row"],
        subs: || vec![Box::new(Sub::<Case> { name: "differential", cases: |t| t.scale(3_000, 10), strategy, exec })],
    }
}
