//! C11 — the query interfaces cannot modify stored data.
//!
//! Generated statements (kind x target x format x decoration) are submitted
//! through every query interface; oracle = snapshot(before) == snapshot(after)
//! (object listing with bytes, zero mutating store requests, catalog through a
//! fresh client, scratch directory, session tables + configuration, answer of
//! a probe query) and "a statement that would write or redefine tables is
//! answered with an error".

use crate::core::*;
use crate::qenv::*;
use crate::sim::*;
use crate::util::*;
use cardinalsin::api::query::flight_sql::FlightSqlQueryService;
use cardinalsin::ingester::{Ingester, IngesterConfig, WalConfig};
use cardinalsin::metadata::{MetadataClient, ObjectStoreMetadataClient, ObjectStoreMetadataConfig};
use cardinalsin::query::{QueryNode, StreamingQueryExecutor};
use cardinalsin::schema::MetricSchema;
use proptest::prelude::*;
use serde::{Deserialize, Serialize};
use std::collections::BTreeMap;
use std::sync::Arc;

#[derive(Clone, Debug, Serialize, Deserialize)]
pub enum Target {
    ExistingChunk,
    NewUnderTenant,
    CatalogPath,
    FileScratch,
    Relative,
}

#[derive(Clone, Debug, Serialize, Deserialize)]
pub enum Stmt {
    CopyTo { query: bool, target: Target, fmt: u8 },
    CreateExternal { name: u8, target: Target, fmt: u8 },
    CreateTableAs { name: u8, or_replace: bool },
    CreateView { name: u8, or_replace: bool },
    DropTable { name: u8, if_exists: bool },
    DropView { name: u8 },
    InsertSelect { name: u8 },
    InsertValues { name: u8 },
    Set { var: u8 },
    CreateSchema,
    Prepare,
    Truncate { name: u8 },
    Delete { name: u8 },
    Update { name: u8 },
    Explain { analyze: bool, inner: Box<Stmt> },
    Multi(Box<Stmt>, Box<Stmt>),
    Select { q: u8 },
}

#[derive(Clone, Debug, Serialize, Deserialize)]
pub struct Case {
    pub stmt: Stmt,
    /// 0 upper, 1 lower, 2 leading comment, 3 trailing semicolon
    pub decor: u8,
    /// which interface
    pub iface: u8,
    /// catalog back-end
    pub backend: u8,
    /// run a warming SELECT first
    pub warm: bool,
}

fn tname(n: u8) -> &'static str {
    ["metrics", "evil", "metrics2", "public.metrics"][n as usize % 4]
}
fn fmt_name(f: u8) -> &'static str {
    ["PARQUET", "CSV", "JSON"][f as usize % 3]
}
fn ext(f: u8) -> &'static str {
    ["parquet", "csv", "json"][f as usize % 3]
}

struct Names {
    chunk: String,
    scratch: String,
}

fn target_url(t: &Target, f: u8, n: &Names) -> String {
    match t {
        Target::ExistingChunk => format!("memory://verif/{}", n.chunk),
        Target::NewUnderTenant => format!("memory://verif/t/data/evil_out.{}", ext(f)),
        Target::CatalogPath => "memory://verif/metadata/catalog.json".to_string(),
        Target::FileScratch => format!("file://{}/evil_out.{}", n.scratch, ext(f)),
        Target::Relative => format!("evil_rel_out.{}", ext(f)),
    }
}

fn sql_of(s: &Stmt, n: &Names) -> String {
    match s {
        Stmt::CopyTo { query, target, fmt } => {
            let src = if *query { "(SELECT * FROM metrics)" } else { "metrics" };
            format!("COPY {} TO '{}' STORED AS {}", src, target_url(target, *fmt, n), fmt_name(*fmt))
        }
        Stmt::CreateExternal { name, target, fmt } => format!("CREATE EXTERNAL TABLE {} STORED AS {} LOCATION '{}'", tname(*name), fmt_name(*fmt), target_url(target, *fmt, n)),
        Stmt::CreateTableAs { name, or_replace } => format!("CREATE {}TABLE {} AS SELECT 1 AS x", if *or_replace { "OR REPLACE " } else { "" }, tname(*name)),
        Stmt::CreateView { name, or_replace } => format!("CREATE {}VIEW {} AS SELECT 1 AS x", if *or_replace { "OR REPLACE " } else { "" }, tname(*name)),
        Stmt::DropTable { name, if_exists } => format!("DROP TABLE {}{}", if *if_exists { "IF EXISTS " } else { "" }, tname(*name)),
        Stmt::DropView { name } => format!("DROP VIEW IF EXISTS {}", tname(*name)),
        Stmt::InsertSelect { name } => format!("INSERT INTO {} SELECT * FROM metrics", tname(*name)),
        Stmt::InsertValues { name } => format!("INSERT INTO {} (metric_name) VALUES ('x')", tname(*name)),
        Stmt::Set { var } => ["SET datafusion.execution.batch_size = 1", "SET datafusion.sql_parser.dialect = 'mysql'", "SET datafusion.execution.time_zone = '+05:00'", "SET datafusion.catalog.default_schema = 'other'"][*var as usize % 4].to_string(),
        Stmt::CreateSchema => "CREATE SCHEMA other".to_string(),
        Stmt::Prepare => "PREPARE p AS SELECT * FROM metrics".to_string(),
        Stmt::Truncate { name } => format!("TRUNCATE TABLE {}", tname(*name)),
        Stmt::Delete { name } => format!("DELETE FROM {}", tname(*name)),
        Stmt::Update { name } => format!("UPDATE {} SET metric_name = 'x'", tname(*name)),
        Stmt::Explain { analyze, inner } => format!("EXPLAIN {}{}", if *analyze { "ANALYZE " } else { "" }, sql_of(inner, n)),
        Stmt::Multi(a, b) => format!("{}; {}", sql_of(a, n), sql_of(b, n)),
        Stmt::Select { q } => ["SELECT count(*) FROM metrics WHERE timestamp >= TIMESTAMP '2000-01-01 00:00:00' AND timestamp <= TIMESTAMP '2100-01-01 00:00:00'", "SELECT 1", "SELECT * FROM metrics WHERE timestamp > TIMESTAMP '2000-01-01 00:00:00' AND timestamp < TIMESTAMP '2100-01-01 00:00:00' AND host = 'a'"][*q as usize % 3].to_string(),
    }
}

/// would the statement write or (re)define tables when executed?
fn must_be_rejected(s: &Stmt) -> bool {
    match s {
        Stmt::CopyTo { .. } | Stmt::CreateExternal { .. } | Stmt::CreateTableAs { .. } | Stmt::CreateView { .. } | Stmt::DropTable { .. } | Stmt::DropView { .. } | Stmt::InsertSelect { .. } | Stmt::InsertValues { .. } | Stmt::Truncate { .. } | Stmt::Delete { .. } | Stmt::Update { .. } | Stmt::CreateSchema => true,
        Stmt::Explain { analyze, inner } => *analyze && must_be_rejected(inner),
        Stmt::Multi(a, b) => must_be_rejected(a) || must_be_rejected(b),
        Stmt::Set { .. } | Stmt::Prepare | Stmt::Select { .. } => false,
    }
}
fn is_plain_select(s: &Stmt) -> bool {
    matches!(s, Stmt::Select { .. })
}
fn kind(s: &Stmt) -> &'static str {
    match s {
        Stmt::CopyTo { .. } => "copy",
        Stmt::CreateExternal { .. } => "create-external",
        Stmt::CreateTableAs { .. } => "create-table-as",
        Stmt::CreateView { .. } => "create-view",
        Stmt::DropTable { .. } => "drop-table",
        Stmt::DropView { .. } => "drop-view",
        Stmt::InsertSelect { .. } | Stmt::InsertValues { .. } => "insert",
        Stmt::Set { .. } => "set",
        Stmt::CreateSchema => "create-schema",
        Stmt::Prepare => "prepare",
        Stmt::Truncate { .. } => "truncate",
        Stmt::Delete { .. } => "delete",
        Stmt::Update { .. } => "update",
        Stmt::Explain { analyze: true, .. } => "explain-analyze",
        Stmt::Explain { .. } => "explain",
        Stmt::Multi(..) => "multi",
        Stmt::Select { .. } => "select",
    }
}

#[derive(PartialEq, Debug)]
struct Snap {
    objects: BTreeMap<String, Vec<u8>>,
    mutations: u64,
    catalog: Vec<(String, i64, i64, u64)>,
    scratch: Vec<String>,
    tables: Vec<String>,
    config: Vec<(String, Option<String>)>,
    probe: Result<Vec<String>, String>,
}

async fn snapshot(core: &SimCore, md: &dyn MetadataClient, node: &QueryNode, scratch: &std::path::Path, with_probe: bool) -> Snap {
    let mut catalog: Vec<(String, i64, i64, u64)> = md.list_chunks().await.unwrap_or_default().into_iter().map(|c| (c.chunk_path, c.min_timestamp, c.max_timestamp, c.row_count)).collect();
    catalog.sort();
    let mut scratch_list: Vec<String> = walk(scratch);
    scratch_list.sort();
    let ctx = node.engine.context();
    let mut tables: Vec<String> = Vec::new();
    for cat in ctx.catalog_names() {
        if let Some(c) = ctx.catalog(&cat) {
            for sch in c.schema_names() {
                if sch == "information_schema" {
                    continue;
                }
                if let Some(s) = c.schema(&sch) {
                    for t in s.table_names() {
                        tables.push(format!("{}.{}.{}", cat, sch, t));
                    }
                }
                tables.push(format!("{}.{}", cat, sch));
            }
        }
    }
    tables.sort();
    let mut config: Vec<(String, Option<String>)> = ctx.state().config().options().entries().into_iter().map(|e| (e.key, e.value)).collect();
    config.sort();
    let probe = if with_probe {
        node.query("SELECT rid, metric_name, host, value_f64 FROM metrics WHERE timestamp >= TIMESTAMP '2000-01-01 00:00:00' AND timestamp <= TIMESTAMP '2100-01-01 00:00:00'")
            .await
            .map(|b| result_rows(&b))
            .map_err(|e| e.to_string().chars().take(120).collect())
    } else {
        Ok(vec![])
    };
    Snap { objects: core.snapshot().into_iter().map(|(k, (_, b))| (k, b.to_vec())).collect(), mutations: core.mutation_count(), catalog, scratch: scratch_list, tables, config, probe }
}

fn walk(dir: &std::path::Path) -> Vec<String> {
    let mut out = Vec::new();
    if let Ok(rd) = std::fs::read_dir(dir) {
        for e in rd.flatten() {
            let p = e.path();
            if p.is_dir() {
                out.extend(walk(&p));
            }
            out.push(p.display().to_string());
        }
    }
    out
}

async fn submit(iface: u8, sql: &str, node: Arc<QueryNode>, ingester: Arc<Ingester>, md: Arc<dyn MetadataClient>) -> (String, Result<(), String>) {
    use tower::ServiceExt;
    match iface % 9 {
        0 => ("QueryNode::query".into(), node.query(sql).await.map(|_| ()).map_err(|e| e.to_string())),
        1 | 2 => {
            let router = cardinalsin::api::build_http_router(ingester, node);
            let req = if iface % 9 == 1 {
                axum::http::Request::builder().method("POST").uri("/api/v1/sql").header("content-type", "application/json").body(axum::body::Body::from(serde_json::json!({"query": sql}).to_string())).unwrap()
            } else {
                let q: String = url_encode(sql);
                axum::http::Request::builder().method("GET").uri(format!("/api/v1/sql?query={}", q)).body(axum::body::Body::empty()).unwrap()
            };
            let resp = router.oneshot(req).await.unwrap();
            let st = resp.status();
            (if iface % 9 == 1 { "HTTP POST /api/v1/sql" } else { "HTTP GET /api/v1/sql" }.into(), if st.is_success() { Ok(()) } else { Err(format!("status {}", st)) })
        }
        3 => ("FlightSql::execute_batches".into(), FlightSqlQueryService::new(node).execute_batches(sql).await.map(|_| ()).map_err(|e| e.to_string())),
        4 => ("FlightSql::do_get".into(), FlightSqlQueryService::new(node).do_get(&arrow_flight::Ticket::new(sql.as_bytes().to_vec())).await.map(|_| ()).map_err(|e| e.to_string())),
        5 => ("FlightSql::get_flight_info".into(), FlightSqlQueryService::new(node).get_flight_info(sql).await.map(|_| ()).map_err(|e| e.to_string())),
        6 => ("FlightSql::create_prepared_statement".into(), FlightSqlQueryService::new(node).create_prepared_statement(sql).await.map(|_| ()).map_err(|e| e.to_string())),
        7 => {
            let rx = ingester.subscribe();
            let ex = StreamingQueryExecutor::new(node.engine.clone(), md, rx);
            let r = ex.execute(sql).await;
            ("StreamingQueryExecutor::execute".into(), r.map(|_| ()).map_err(|e| e.to_string()))
        }
        _ => {
            // Prometheus API with a hostile selector built from the statement
            let router = cardinalsin::api::build_http_router(ingester, node);
            let hostile = format!("cpu{{host=\"a'; {}; --\"}}", sql);
            let req = axum::http::Request::builder().method("GET").uri(format!("/api/v1/query?query={}", url_encode(&hostile))).body(axum::body::Body::empty()).unwrap();
            let resp = router.oneshot(req).await.unwrap();
            let st = resp.status();
            ("Prometheus /api/v1/query (hostile selector)".into(), if st.is_success() { Ok(()) } else { Err(format!("status {}", st)) })
        }
    }
}

fn url_encode(s: &str) -> String {
    s.bytes().map(|b| if b.is_ascii_alphanumeric() { (b as char).to_string() } else { format!("%{:02X}", b) }).collect()
}

pub fn exec(case: &Case) -> Outcome {
    let rt = rt_plain();
    let scratch = crate::props::c05::scratch_dir();
    let _ = std::env::set_current_dir(scratch.path());
    rt.block_on(async {
        let mut out = Outcome::pass();
        let core = SimCore::new();
        let store: Arc<dyn object_store::ObjectStore> = core.node(0);
        let d = Dataset {
            ts_type: 1,
            age: 1,
            span_h: 1,
            custom_label: false,
            backend: case.backend,
            rows: (0..6).map(|i| QRow { minute: 10 * i, jitter: 0, metric: (i % 3) as u8, host: Some((i % 2) as u8), zone: None, value: i as i8, chunk: (i % 2) as u8 }).collect(), hetero: 0, pre_epoch: false };
        let now = chrono::Utc::now().timestamp_nanos_opt().unwrap();
        let env = match ingest(store.clone(), d.backend, &d.batches(now), d.schema()).await {
            Ok(e) => e,
            Err(e) => {
                out.set_fail("ingest-failed", e);
                return out;
            }
        };
        let node = Arc::new(query_node(&env, false).await.expect("query node"));
        let ingester = Arc::new(Ingester::new(
            IngesterConfig { wal: WalConfig { enabled: false, ..Default::default() }, ..Default::default() },
            store.clone(),
            env.metadata.clone(),
            storage_config(),
            MetricSchema::default_metrics(),
        ));
        let chunks = env.metadata.list_chunks().await.unwrap_or_default();
        let names = Names { chunk: chunks.first().map(|c| c.chunk_path.clone()).unwrap_or_default(), scratch: scratch.path().display().to_string() };
        let mut sql = sql_of(&case.stmt, &names);
        match case.decor % 4 {
            1 => sql = sql.replace("COPY", "copy").replace("CREATE", "create").replace("DROP", "drop").replace("INSERT", "insert").replace("TABLE", "table").replace("EXPLAIN", "explain"),
            2 => sql = format!("/* hello */ {}", sql),
            3 => sql = format!("{};", sql),
            _ => {}
        }
        let fresh_md: Arc<dyn MetadataClient> = if d.backend % 2 == 1 { Arc::new(ObjectStoreMetadataClient::new(core.node(5), ObjectStoreMetadataConfig::default())) } else { env.metadata.clone() };
        if case.warm {
            let _ = node.query(&sql_of(&Stmt::Select { q: 0 }, &names)).await;
        }
        // the probe itself re-registers the metrics table, so take it before the snapshot too
        let before = snapshot(&core, fresh_md.as_ref(), &node, scratch.path(), true).await;
        let before = Snap { mutations: core.mutation_count(), ..before };
        let (iface, res) = submit(case.iface, &sql, node.clone(), ingester.clone(), env.metadata.clone()).await;
        let fresh_md2: Arc<dyn MetadataClient> = if d.backend % 2 == 1 { Arc::new(ObjectStoreMetadataClient::new(core.node(6), ObjectStoreMetadataConfig::default())) } else { env.metadata.clone() };
        let after = snapshot(&core, fresh_md2.as_ref(), &node, scratch.path(), true).await;
        out.class(format!("kind:{}", kind(&case.stmt)));
        out.class(format!("iface:{}", iface));
        out.class(if res.is_ok() { "answered:ok" } else { "answered:error" });
        out.nontrivial = !is_plain_select(&case.stmt);
        let k = kind(&case.stmt);
        if before.objects != after.objects || before.mutations != after.mutations {
            let new: Vec<&String> = after.objects.keys().filter(|p| !before.objects.contains_key(*p)).collect();
            let changed: Vec<&String> = after.objects.iter().filter(|(p, b)| before.objects.get(*p).map(|x| x != *b).unwrap_or(false)).map(|(p, _)| p).collect();
            let gone: Vec<&String> = before.objects.keys().filter(|p| !after.objects.contains_key(*p)).collect();
            out.set_fail(format!("storage-modified:{}", k), format!("[{}] {}\n created {:?}, overwritten {:?}, deleted {:?} ({} mutating requests)", iface, sql, new, changed, gone, after.mutations - before.mutations));
            return out;
        }
        if before.catalog != after.catalog {
            out.set_fail(format!("catalog-modified:{}", k), format!("[{}] {}", iface, sql));
            return out;
        }
        if before.scratch != after.scratch {
            out.set_fail(format!("local-files-written:{}", k), format!("[{}] {}\n files now: {:?}", iface, sql, after.scratch));
            return out;
        }
        if before.tables != after.tables {
            out.set_fail(format!("session-tables-changed:{}", k), format!("[{}] {}\n before {:?}\n after {:?}", iface, sql, before.tables, after.tables));
            return out;
        }
        if before.config != after.config {
            let diff: Vec<&(String, Option<String>)> = after.config.iter().filter(|e| !before.config.contains(e)).collect();
            out.set_fail(format!("session-config-changed:{}", k), format!("[{}] {}\n changed: {:?}", iface, sql, diff));
            return out;
        }
        if before.probe != after.probe {
            out.set_fail(format!("later-queries-see-something-else:{}", k), format!("[{}] {}\n probe before {:?}\n probe after {:?}", iface, sql, before.probe, after.probe));
            return out;
        }
        // the Prometheus route never passes the statement as SQL; rejection is only demanded where the text is the statement
        if must_be_rejected(&case.stmt) && res.is_ok() && case.iface % 9 != 8 {
            out.set_fail(format!("write-statement-not-rejected:{}", k), format!("[{}] {}\n was answered with success", iface, sql));
            return out;
        }
        out
    })
}

fn target() -> impl Strategy<Value = Target> {
    prop_oneof![Just(Target::ExistingChunk), Just(Target::NewUnderTenant), Just(Target::CatalogPath), Just(Target::FileScratch), Just(Target::Relative)]
}

fn stmt() -> impl Strategy<Value = Stmt> {
    let leaf = prop_oneof![
        4 => (any::<bool>(), target(), 0u8..3).prop_map(|(query, target, fmt)| Stmt::CopyTo { query, target, fmt }),
        2 => (0u8..4, target(), 0u8..3).prop_map(|(name, target, fmt)| Stmt::CreateExternal { name, target, fmt }),
        2 => (0u8..4, any::<bool>()).prop_map(|(name, or_replace)| Stmt::CreateTableAs { name, or_replace }),
        2 => (0u8..4, any::<bool>()).prop_map(|(name, or_replace)| Stmt::CreateView { name, or_replace }),
        2 => (0u8..4, any::<bool>()).prop_map(|(name, if_exists)| Stmt::DropTable { name, if_exists }),
        1 => (0u8..4).prop_map(|name| Stmt::DropView { name }),
        1 => (0u8..4).prop_map(|name| Stmt::InsertSelect { name }),
        1 => (0u8..4).prop_map(|name| Stmt::InsertValues { name }),
        2 => (0u8..4).prop_map(|var| Stmt::Set { var }),
        1 => Just(Stmt::CreateSchema),
        1 => Just(Stmt::Prepare),
        1 => (0u8..4).prop_map(|name| Stmt::Truncate { name }),
        1 => (0u8..4).prop_map(|name| Stmt::Delete { name }),
        1 => (0u8..4).prop_map(|name| Stmt::Update { name }),
        2 => (0u8..3).prop_map(|q| Stmt::Select { q }),
    ];
    leaf.prop_recursive(2, 4, 2, |inner| {
        prop_oneof![
            2 => (any::<bool>(), inner.clone()).prop_map(|(analyze, i)| Stmt::Explain { analyze, inner: Box::new(i) }),
            1 => (inner.clone(), inner).prop_map(|(a, b)| Stmt::Multi(Box::new(a), Box::new(b))),
        ]
    })
}

fn strategy(_t: Tier) -> BoxedStrategy<Case> {
    (stmt(), 0u8..4, 0u8..9, 0u8..2, any::<bool>()).prop_map(|(stmt, decor, iface, backend, warm)| Case { stmt, decor, iface, backend, warm }).boxed()
}

pub fn def() -> PropDef {
    PropDef {
        id: "C11",
        level: "exploration",
        rule: "statement kind in {COPY .. TO, CREATE EXTERNAL TABLE, CREATE [OR REPLACE] TABLE AS / VIEW (incl. named metrics), DROP TABLE/VIEW, INSERT, SET, CREATE SCHEMA, PREPARE, TRUNCATE, DELETE, UPDATE, EXPLAIN [ANALYZE] of those, two-statement strings, SELECT controls} x target in {existing chunk path, new path under the tenant, catalog path, file:// scratch dir, relative path} x {PARQUET, CSV, JSON} x decoration (case, comment, trailing ;) x interface in {QueryNode::query, HTTP POST / GET /api/v1/sql through the axum router, FlightSql execute_batches / do_get / get_flight_info / create_prepared_statement, StreamingQueryExecutor::execute, Prometheus /api/v1/query with the statement smuggled into a selector} x catalog back-end x cold/warm node. Non-trivial = the statement is not a plain SELECT.",
        assumptions: &["the snapshot covers: all objects with bytes, count of mutating store requests, catalog via a fresh client, scratch + working directory, session catalogs/schemas/tables, session configuration, answer of a fixed probe query"],
        subs: || vec![Box::new(Sub::<Case> { name: "statements", cases: |t| t.scale(12_000, 5), strategy, exec })],
    }
}
