//! C13 — shard metadata changes are fenced by generation.

use crate::core::*;
use crate::sim::*;
use crate::util::*;
use cardinalsin::metadata::{LocalMetadataClient, MetadataClient, ObjectStoreMetadataClient, ObjectStoreMetadataConfig};
use cardinalsin::sharding::{ShardMetadata, ShardRouter, ShardState};
use proptest::prelude::*;
use serde::{Deserialize, Serialize};
use std::collections::BTreeMap;
use std::sync::Arc;

#[derive(Clone, Debug, Serialize, Deserialize)]
pub enum Exp {
    /// absolute expected generation
    Abs(u8),
    /// read the shard first (a schedulable GET) and use current + delta (clamped at 0)
    Read(i8),
}

#[derive(Clone, Debug, Serialize, Deserialize)]
pub struct Op {
    pub shard: u8,
    pub state: u8,
    pub exp: Exp,
}

#[derive(Clone, Debug, Serialize, Deserialize)]
pub struct Case {
    pub clients: Vec<Vec<Op>>,
    pub schedule: Vec<u16>,
    pub victim: Option<u8>,
    /// generations the two shards are pre-advanced to (sequentially) before the race
    pub initial: [u8; 2],
}

fn shard_id(s: u8) -> String {
    format!("shard-{}", s % 2)
}

/// Caller's metadata; `marker` (client, op) is encoded in min_time/max_time so
/// the body of each version can be attributed.
fn meta(shard: u8, state: u8, client: usize, idx: usize) -> ShardMetadata {
    ShardMetadata {
        shard_id: shard_id(shard),
        generation: 7777, // must be ignored / replaced by the store
        key_range: (vec![0u8; 8], vec![0xffu8; 8]),
        replicas: vec![],
        state: match state % 3 {
            0 => ShardState::Active,
            1 => ShardState::Splitting { new_shards: vec![format!("n{}a", idx), format!("n{}b", idx)] },
            _ => ShardState::PendingDeletion { delete_after: 12345 },
        },
        min_time: client as i64,
        max_time: idx as i64,
    }
}

#[derive(Clone, Debug)]
struct OpRes {
    client: usize,
    idx: usize,
    shard: String,
    expected: u64,
    ok: bool,
    err: String,
    from: u64,
    to: u64,
}

async fn run_op(client: &dyn MetadataClient, ci: usize, idx: usize, op: &Op, log_len: &(dyn Fn() -> u64 + Send + Sync)) -> OpRes {
    let sid = shard_id(op.shard);
    let from = log_len();
    let expected: u64 = match &op.exp {
        Exp::Abs(k) => *k as u64,
        Exp::Read(d) => {
            let cur = client.get_shard_metadata(&sid).await.ok().flatten().map(|m| m.generation).unwrap_or(0) as i64;
            (cur + *d as i64).max(0) as u64
        }
    };
    let from2 = log_len();
    let _ = from;
    let r = client.update_shard_metadata(&sid, &meta(op.shard, op.state, ci, idx), expected).await;
    let to = log_len();
    OpRes { client: ci, idx, shard: sid, expected, ok: r.is_ok(), err: r.err().map(|e| format!("{:?}", e)).unwrap_or_default(), from: from2, to }
}

pub fn exec_s3(case: &Case) -> Outcome {
    let rt = rt_paused();
    rt.block_on(async {
        let core = SimCore::new();
        let mut out = Outcome::pass();
        {
            let setup = ObjectStoreMetadataClient::new(core.node(99), ObjectStoreMetadataConfig::default());
            for s in 0..2u8 {
                for g in 0..(case.initial[s as usize] % 4) {
                    setup.update_shard_metadata(&shard_id(s), &meta(s, 0, 99, g as usize), g as u64).await.expect("set-up update");
                }
            }
        }
        let setup_versions = core.versions().len();
        core.set_scheduled(true);
        let results: Arc<parking_lot::Mutex<Vec<OpRes>>> = Arc::new(parking_lot::Mutex::new(Vec::new()));
        let mut handles = Vec::new();
        for (ci, ops) in case.clients.iter().enumerate() {
            let client = ObjectStoreMetadataClient::new(core.node(ci as u32), ObjectStoreMetadataConfig::default());
            let ops = ops.clone();
            let core2 = core.clone();
            let results = results.clone();
            handles.push(tokio::spawn(async move {
                for (idx, op) in ops.iter().enumerate() {
                    let r = run_op(&client, ci, idx, op, &|| core2.log_len() as u64).await;
                    results.lock().push(r);
                }
            }));
        }
        let victim = case.victim.map(|v| (v as usize % case.clients.len()) as u32).map(|v| (v, v as usize));
        let run = drive_schedule(&core, &handles, &case.schedule, victim, 4000).await;
        out.count("requests_scheduled", run.scheduled);
        if run.end != DriveEnd::Done {
            handles.iter().for_each(|h| h.abort());
            out.set_fail("did-not-finish", format!("clients did not finish: {:?}", run.end));
            return out;
        }
        for h in handles {
            if let Err(e) = h.await {
                if e.is_panic() {
                    out.set_fail("client-panic", format!("panic: {}", take_last_panic().unwrap_or_default()));
                    return out;
                }
            }
        }
        core.set_scheduled(false);
        let results = results.lock().clone();
        let versions = core.versions();
        let log = core.log();
        let conflicts = log.iter().filter(|l| l.desc.op == OpKind::Put && (l.outcome == "err:precondition" || l.outcome == "err:exists")).count();
        if conflicts > 0 {
            out.class("etag-conflict");
        }
        if log.iter().any(|l| l.outcome == "err:exists") {
            out.class("create-race");
        }
        if results.iter().any(|r| r.err.contains("TooManyRetries")) {
            out.class("retry-exhaustion");
        }
        if results.iter().any(|r| r.err.contains("StaleGeneration")) {
            out.class("stale-rejected");
        }
        // non-trivial: two ops with equal (shard, expected) had overlapping request windows
        let mut overlap = false;
        for a in &results {
            for b in &results {
                if (a.client, a.idx) < (b.client, b.idx) && a.shard == b.shard && a.expected == b.expected && a.client != b.client && a.from < b.to && b.from < a.to {
                    overlap = true;
                }
            }
        }
        out.nontrivial = overlap;
        if overlap {
            out.class("same-expected-overlap");
        }
        for s in 0..2u8 {
            let sid = shard_id(s);
            let suffix = format!("{}.json", sid);
            let all: Vec<&VersionRec> = versions.iter().filter(|v| v.path.ends_with(&suffix)).collect();
            // generations 1,2,3,... in commit order
            for (i, v) in all.iter().enumerate() {
                let m: ShardMetadata = match serde_json::from_slice(&v.data) {
                    Ok(m) => m,
                    Err(e) => {
                        out.set_fail("unparsable-shard-version", format!("{} version {} does not parse: {}", sid, i, e));
                        return out;
                    }
                };
                if m.generation != i as u64 + 1 {
                    out.set_fail("generation-not-plus-one", format!("{}: version #{} (written by client {}) carries generation {} (expected {})", sid, i + 1, v.node, m.generation, i + 1));
                    return out;
                }
                if !v.conditional {
                    out.set_fail("unconditional-shard-write", format!("{}: version #{} written unconditionally", sid, i + 1));
                    return out;
                }
            }
            let mine: Vec<&&VersionRec> = all.iter().skip_while(|v| (v.effect_seq as usize) <= 0).collect();
            let _ = mine;
            // map results to versions
            let mut winners: BTreeMap<u64, (usize, usize)> = BTreeMap::new();
            for r in results.iter().filter(|r| r.shard == sid) {
                let vs: Vec<&&VersionRec> = all.iter().filter(|v| v.node as usize == r.client && v.req_id >= r.from && v.req_id < r.to).collect();
                if r.ok {
                    if vs.len() != 1 {
                        out.set_fail("success-without-single-version", format!("client {} op {} on {} reported success but wrote {} versions", r.client, r.idx, sid, vs.len()));
                        return out;
                    }
                    let m: ShardMetadata = serde_json::from_slice(&vs[0].data).unwrap();
                    if m.generation != r.expected + 1 {
                        out.set_fail("success-with-wrong-generation", format!("client {} op {} on {} expected generation {} but its version carries {}", r.client, r.idx, sid, r.expected, m.generation));
                        return out;
                    }
                    let want = meta(s, case.clients[r.client][r.idx].state, r.client, r.idx);
                    if m.min_time != want.min_time || m.max_time != want.max_time || m.state != want.state || m.key_range != want.key_range {
                        out.set_fail("version-body-not-callers", format!("client {} op {} on {}: stored body is not the caller's metadata", r.client, r.idx, sid));
                        return out;
                    }
                    if let Some(prev) = winners.insert(r.expected, (r.client, r.idx)) {
                        out.set_fail("two-winners-same-generation", format!("{}: ops {:?} and {:?} both succeeded based on generation {}", sid, prev, (r.client, r.idx), r.expected));
                        return out;
                    }
                } else if !vs.is_empty() {
                    out.set_fail("failure-with-effect", format!("client {} op {} on {} reported {} but wrote a version", r.client, r.idx, sid, r.err));
                    return out;
                }
            }
            // final read == last version
            let fresh = ObjectStoreMetadataClient::new(core.node(98), ObjectStoreMetadataConfig::default());
            let fin = fresh.get_shard_metadata(&sid).await.ok().flatten();
            match (fin, all.last()) {
                (Some(f), Some(v)) => {
                    let m: ShardMetadata = serde_json::from_slice(&v.data).unwrap();
                    if f.generation != m.generation || f.min_time != m.min_time || f.max_time != m.max_time {
                        out.set_fail("final-read-not-last-version", format!("{}: final read gen {} vs last version gen {}", sid, f.generation, m.generation));
                        return out;
                    }
                }
                (None, None) => {}
                (a, b) => {
                    out.set_fail("final-read-not-last-version", format!("{}: final read {:?} vs versions {}", sid, a.map(|m| m.generation), b.is_some()));
                    return out;
                }
            }
        }
        let _ = setup_versions;
        out
    })
}

// ---- LocalMetadataClient: sequential histories vs model --------------------

#[derive(Clone, Debug, Serialize, Deserialize)]
pub struct LocalCase {
    pub ops: Vec<Op>,
}

pub fn exec_local(case: &LocalCase) -> Outcome {
    let rt = rt_plain();
    rt.block_on(async {
        let client = LocalMetadataClient::new();
        let mut model: BTreeMap<String, u64> = BTreeMap::new();
        let mut out = Outcome::pass();
        let mut rejected = 0;
        for (idx, op) in case.ops.iter().enumerate() {
            let sid = shard_id(op.shard);
            let cur = model.get(&sid).cloned();
            let expected: u64 = match &op.exp {
                Exp::Abs(k) => *k as u64,
                Exp::Read(d) => (cur.unwrap_or(0) as i64 + *d as i64).max(0) as u64,
            };
            let r = client.update_shard_metadata(&sid, &meta(op.shard, op.state, 0, idx), expected).await;
            let should = match cur {
                Some(g) => g == expected,
                None => expected == 0,
            };
            if r.is_ok() != should {
                out.set_fail(
                    if r.is_ok() { "local-stale-update-accepted" } else { "local-valid-update-rejected" },
                    format!("op {}: update({}, expected {}) with stored generation {:?} returned {:?}", idx, sid, expected, cur, r.as_ref().map_err(|e| e.to_string())),
                );
                return out;
            }
            if r.is_ok() {
                model.insert(sid.clone(), expected + 1);
            } else {
                rejected += 1;
            }
            let got = client.get_shard_metadata(&sid).await.ok().flatten();
            match (got, model.get(&sid)) {
                (Some(m), Some(g)) => {
                    if m.generation != *g {
                        out.set_fail("local-generation-wrong", format!("op {}: stored generation {} but model says {}", idx, m.generation, g));
                        return out;
                    }
                    if r.is_ok() && (m.max_time != idx as i64) {
                        out.set_fail("local-body-not-callers", format!("op {}: stored body is not the caller's", idx));
                        return out;
                    }
                }
                (None, None) => {}
                (a, b) => {
                    out.set_fail("local-presence-wrong", format!("op {}: stored {:?} vs model {:?}", idx, a.map(|m| m.generation), b));
                    return out;
                }
            }
        }
        out.nontrivial = rejected > 0 && model.values().any(|g| *g >= 2);
        out
    })
}

/// Sampled (uncontrolled) multi-thread race on LocalMetadataClient: N threads
/// update the same shard based on the same generation; at most one may win.
#[derive(Clone, Debug, Serialize, Deserialize)]
pub struct RaceCase {
    pub threads: u8,
    pub rounds: u16,
}

pub fn exec_local_race(case: &RaceCase) -> Outcome {
    let n = 2 + (case.threads % 7) as usize;
    let rt = tokio::runtime::Builder::new_multi_thread().worker_threads(n).enable_all().build().unwrap();
    let mut out = Outcome::pass();
    out.nontrivial = true;
    let res = rt.block_on(async {
        let client = Arc::new(LocalMetadataClient::new());
        for round in 0..case.rounds as u64 {
            let barrier = Arc::new(tokio::sync::Barrier::new(n));
            let mut hs = Vec::new();
            for t in 0..n {
                let c = client.clone();
                let b = barrier.clone();
                hs.push(tokio::spawn(async move {
                    b.wait().await;
                    c.update_shard_metadata("shard-r", &meta(0, 0, t, round as usize), round).await.is_ok()
                }));
            }
            let mut wins = 0;
            for h in hs {
                if h.await.unwrap_or(false) {
                    wins += 1;
                }
            }
            if wins != 1 {
                return Err(format!("round {}: {} of {} concurrent updates based on generation {} succeeded", round, wins, n, round));
            }
        }
        Ok(())
    });
    if let Err(m) = res {
        out.set_fail("local-two-winners-same-generation", m);
    }
    out
}

// ---- ShardRouter ------------------------------------------------------------

#[derive(Clone, Debug, Serialize, Deserialize)]
pub enum ROp {
    Update {
        shard: u8,
        gen: u8,
        /// 0 = Active, 1 = Splitting, 2 = PendingDeletion (a record the router learns but must not route to)
        #[serde(default)]
        state: u8,
    },
    Invalidate(u8),
    Moved { shard: u8, gen: u8 },
}
#[derive(Clone, Debug, Serialize, Deserialize)]
pub struct RouterCase {
    pub ops: Vec<ROp>,
}

pub fn exec_router(case: &RouterCase) -> Outcome {
    use cardinalsin::sharding::ShardKey;
    let router = ShardRouter::new(std::time::Duration::from_secs(3600));
    let mut out = Outcome::pass();
    let mk = |s: u8, gen: u8, marker: usize, state: u8| ShardMetadata {
        shard_id: shard_id(s),
        generation: gen as u64,
        key_range: if s % 2 == 0 { (vec![0u8], vec![0x80u8]) } else { (vec![0x80u8], vec![0xffu8, 0xff]) },
        replicas: vec![],
        state: match state % 3 {
            0 => ShardState::Active,
            1 => ShardState::Splitting { new_shards: vec!["na".into(), "nb".into()] },
            _ => ShardState::PendingDeletion { delete_after: 1 },
        },
        min_time: marker as i64,
        max_time: 0,
    };
    let keys = [ShardKey::new(1, "m", 0), ShardKey::new(0x9000_0000, "m", 0)];
    // per shard: (generation, marker, active) of the record the router must hold
    let mut model: [Option<(u64, i64, bool)>; 2] = [None, None];
    let mut rejected = 0;
    for (i, op) in case.ops.iter().enumerate() {
        match op {
            ROp::Update { shard, gen, state } => {
                let s = (*shard % 2) as usize;
                router.update_routing(mk(*shard, *gen, i, *state));
                if state % 3 != 0 {
                    out.class("router-learns-a-non-active-record");
                }
                match model[s] {
                    Some((g, _, _)) if (*gen as u64) < g => rejected += 1,
                    _ => model[s] = Some((*gen as u64, i as i64, state % 3 == 0)),
                }
            }
            ROp::Invalidate(shard) => {
                router.invalidate(&shard_id(*shard));
                model[(*shard % 2) as usize] = None;
            }
            ROp::Moved { shard, gen } => {
                router.handle_shard_moved(&shard_id(*shard), mk(*shard, *gen, i, 0));
                model[(*shard % 2) as usize] = Some((*gen as u64, i as i64, true));
            }
        }
        for s in 0..2 {
            let got = router.get_shard(&keys[s]).map(|m| (m.generation, m.min_time));
            // a record that is not active is known (it fences older ones) but never routed to
            let want = model[s].and_then(|(g, m, active)| if active { Some((g, m)) } else { None });
            if got != want {
                let sig = match (got, model[s]) {
                    (Some((g, _)), Some((mg, _, _))) if g < mg => "router-older-generation-replaced-newer",
                    _ => "router-cache-differs-from-model",
                };
                out.set_fail(sig, format!("after op {} ({:?}) router holds {:?} for shard {} but the model says {:?}", i, op, got, s, model[s]));
                return out;
            }
        }
    }
    out.nontrivial = rejected > 0;
    out
}

// ---- the production writer of shard records: a split's cut-over, racing a correct updater ------------

/// One replica re-assignment of the old shard by another node: read the record, replace the
/// replica list by a marker, write it back under the generation that was read; on a stale
/// rejection start over from a fresh read (what a correct writer does).
#[derive(Clone, Debug, Serialize, Deserialize)]
pub struct Reassign {
    /// the update starts once the split has had this many of its requests served (or has ended)
    pub delay: u8,
}

#[derive(Clone, Debug, Serialize, Deserialize)]
pub struct WriterCase {
    pub data: crate::props::c14::Dataset,
    pub updates: Vec<Reassign>,
    pub schedule: Vec<u16>,
}

#[derive(Clone, Debug, PartialEq)]
struct Obs {
    generation: u64,
    replicas: Vec<String>,
    state: String,
}

fn obs_of(m: &ShardMetadata) -> Obs {
    Obs {
        generation: m.generation,
        replicas: m.replicas.iter().map(|r| r.node_id.clone()).collect(),
        state: match &m.state {
            ShardState::Active => "Active".into(),
            ShardState::Splitting { .. } => "Splitting".into(),
            ShardState::PendingDeletion { .. } => "PendingDeletion".into(),
            #[allow(unreachable_patterns)]
            other => format!("{:?}", other),
        },
    }
}

pub fn exec_split_writer(case: &WriterCase) -> Outcome {
    use crate::props::c14::{run_split, World, OLD};
    const UPDATER: u32 = 20;
    let rt = rt_paused();
    rt.block_on(async {
        let mut out = Outcome::pass();
        let w = match World::build(&case.data).await {
            Ok(w) => Arc::new(w),
            Err(e) => {
                out.set_fail("build-failed", e);
                return out;
            }
        };
        let core = w.core.clone();
        core.set_gate_nodes(Some((1u32..=8).chain([UPDATER]).collect()));
        core.set_scheduled(true);
        // task A: the split, then resumes (fresh splitter each) until it reports completion
        let split_log: Arc<parking_lot::Mutex<Vec<String>>> = Arc::new(parking_lot::Mutex::new(Vec::new()));
        let a = {
            let w = w.clone();
            let split_log = split_log.clone();
            tokio::spawn(async move {
                let mut node = 1u32;
                let mut r = run_split(&w, node, false).await;
                for _ in 0..6 {
                    match &r {
                        Ok(Ok(_)) => {
                            split_log.lock().push("ok".into());
                            break;
                        }
                        Ok(Err(e)) => split_log.lock().push(e.clone()),
                        Err(()) => split_log.lock().push("hang".into()),
                    }
                    node += 1;
                    r = run_split(&w, node, true).await;
                }
            })
        };
        // task B: the updater
        let committed: Arc<parking_lot::Mutex<Vec<String>>> = Arc::new(parking_lot::Mutex::new(Vec::new()));
        let b = {
            let w = w.clone();
            let core = core.clone();
            let updates = case.updates.clone();
            let committed = committed.clone();
            tokio::spawn(async move {
                let md = w.md(UPDATER);
                for (k, u) in updates.iter().enumerate() {
                    // parked until the split has had `delay` of its requests served (the chooser below holds it back)
                    let _ = core.gated(ReqDesc { node: UPDATER, op: OpKind::Pause, path: format!("updater:wait:{}", u.delay), detail: String::new() }, || async {}).await;
                    let marker = format!("node-m{}", k);
                    for _attempt in 0..8 {
                        let cur = match md.get_shard_metadata(OLD).await {
                            Ok(Some(m)) => m,
                            _ => break,
                        };
                        let mut next = cur.clone();
                        next.replicas = vec![cardinalsin::sharding::ReplicaInfo { replica_id: format!("r-{}", k), node_id: marker.clone(), is_leader: true }];
                        match md.update_shard_metadata(OLD, &next, cur.generation).await {
                            Ok(()) => {
                                committed.lock().push(marker.clone());
                                break;
                            }
                            Err(cardinalsin::Error::StaleGeneration { .. }) => continue,
                            Err(_) => break,
                        }
                    }
                }
            })
        };
        let handles = vec![a, b];
        // one scheduling step at a time; the old shard's record is observed after every step
        let mut seen: Vec<Obs> = Vec::new();
        let observe = |seen: &mut Vec<Obs>, m: Option<ShardMetadata>| {
            if let Some(m) = m {
                let o = obs_of(&m);
                if seen.last() != Some(&o) {
                    seen.push(o);
                }
            }
        };
        observe(&mut seen, w.md(97).get_shard_metadata(OLD).await.ok().flatten());
        let mut pos = 0usize;
        let mut steps = 0u64;
        let mut split_served = 0u32;
        let end = loop {
            let mut done = || handles.iter().all(|h| h.is_finished());
            let mut released = false;
            let split_done = handles[0].is_finished();
            let mut choose = |pend: &[PendingInfo]| -> Choice {
                if released {
                    return Choice::Stop;
                }
                // the updater's wait is only released once the split got that far (or is over)
                let cands: Vec<&PendingInfo> = pend
                    .iter()
                    .filter(|p| match p.desc.path.strip_prefix("updater:wait:") {
                        Some(k) => split_done || split_served >= k.parse::<u32>().unwrap_or(0),
                        None => true,
                    })
                    .collect();
                if cands.is_empty() {
                    // only the waiting updater is parked: the split is sleeping between phases
                    return Choice::Wait(std::time::Duration::from_secs(2));
                }
                released = true;
                let sv = if pos < case.schedule.len() { case.schedule[pos] } else { ((pos as u32 * 7919) % 65521) as u16 };
                pos += 1;
                let pick = cands[pick_idx(sv, cands.len())];
                if pick.desc.node != UPDATER {
                    split_served += 1;
                }
                Choice::Release(pick.id, Decision::Proceed)
            };
            let e = drive(&core, &mut done, &mut choose, 4).await;
            steps += 1;
            observe(&mut seen, w.md(97).get_shard_metadata(OLD).await.ok().flatten());
            if e == DriveEnd::Done {
                break DriveEnd::Done;
            }
            if e == DriveEnd::Stuck || steps > 20000 {
                break DriveEnd::Stuck;
            }
        };
        out.count("requests_scheduled", steps);
        if end != DriveEnd::Done {
            handles.iter().for_each(|h| h.abort());
            out.set_fail("split-or-updater-did-not-finish", format!("{:?} after {} steps; split attempts: {:?}", end, steps, split_log.lock()));
            return out;
        }
        for h in handles {
            if let Err(e) = h.await {
                if e.is_panic() {
                    out.set_fail("writer-panic", take_last_panic().unwrap_or_default());
                    return out;
                }
            }
        }
        core.set_scheduled(false);
        let committed = committed.lock().clone();
        let split_log = split_log.lock().clone();
        // ---- oracle over the history of the old shard's record ----
        let mut markers_seen: Vec<String> = Vec::new();
        for i in 1..seen.len() {
            let (p, n) = (&seen[i - 1], &seen[i]);
            if n.generation != p.generation + 1 {
                out.set_fail("generation-not-raised-by-one", format!("old shard record went from generation {} to {} ({:?} -> {:?})", p.generation, n.generation, p, n));
                return out;
            }
            if n.replicas != p.replicas {
                let fresh = n.replicas.len() == 1 && n.replicas[0].starts_with("node-m") && !markers_seen.contains(&n.replicas[0]);
                if !fresh {
                    out.set_fail(
                        "newer-record-overwritten-by-writer-acting-on-older-one",
                        format!("generation {} -> {}: the replica assignment {:?} (written by the updater, acknowledged) was replaced by {:?}, which no writer set at this point - content based on an older generation was stored under a newer one; history {:?}; split attempts {:?}", p.generation, n.generation, p.replicas, n.replicas, seen, split_log),
                    );
                    return out;
                }
                markers_seen.push(n.replicas[0].clone());
            }
            if p.state == "PendingDeletion" && n.state != "PendingDeletion" {
                out.set_fail("newer-record-overwritten-by-writer-acting-on-older-one", format!("generation {} -> {}: state went back from PendingDeletion to {}; history {:?}", p.generation, n.generation, n.state, seen));
                return out;
            }
        }
        if markers_seen != committed {
            out.set_fail("acknowledged-update-not-in-history", format!("updates acknowledged to the updater: {:?}; assignments that ever appeared in the record: {:?}; history {:?}", committed, markers_seen, seen));
            return out;
        }
        if let (Some(last), Some(fin)) = (committed.last(), seen.last()) {
            if fin.replicas != vec![last.clone()] {
                out.set_fail("newer-record-overwritten-by-writer-acting-on-older-one", format!("final record carries {:?}, last acknowledged assignment {:?}", fin.replicas, last));
                return out;
            }
        }
        let stale_hit = split_log.iter().any(|e| e.contains("StaleGeneration"));
        if stale_hit {
            out.class("cut-over-rejected-as-stale");
        }
        if split_log.last().map(|s| s == "ok").unwrap_or(false) {
            out.class("split-finished");
        }
        if !committed.is_empty() && seen.last().map(|o| o.state == "PendingDeletion").unwrap_or(false) {
            out.class("update-and-deactivation-both-in-history");
        }
        out.nontrivial = !committed.is_empty() && seen.iter().any(|o| o.state == "PendingDeletion");
        out
    })
}

fn op() -> impl Strategy<Value = Op> {
    (0u8..2, 0u8..3, prop_oneof![2 => (0u8..5).prop_map(Exp::Abs), 3 => (-1i8..=1).prop_map(Exp::Read), 2 => Just(Exp::Read(0))]).prop_map(|(shard, state, exp)| Op { shard, state, exp })
}

fn strategy_s3(t: Tier) -> BoxedStrategy<Case> {
    let maxc = t.pick(5usize, 6usize);
    (
        prop::collection::vec(prop::collection::vec(op(), 1..4), 2..maxc),
        prop::collection::vec(any::<u16>(), 0..100),
        prop_oneof![2 => Just(None), 1 => (0u8..6).prop_map(Some)],
        [0u8..4, 0u8..4],
    )
        .prop_map(|(clients, schedule, victim, initial)| Case { clients, schedule, victim, initial })
        .boxed()
}

pub fn def() -> PropDef {
    PropDef {
        id: "C13",
        level: "exploration",
        rule: "s3: 2-5 ObjectStoreMetadataClients each issuing 1-3 update_shard_metadata(shard of 2, state, expected in {absolute 0..4, read-current + {-1,0,+1}}) interleaved at object-store-request granularity (schedule + victim bias), shards pre-advanced to generation 0-3; non-trivial = two ops of different clients with the same (shard, expected) had overlapping request windows. local: sequential histories vs a generation model (non-trivial = a stale update was rejected after the shard reached generation >=2) plus a sampled multi-thread race (thorough). router: update (records of any state: Active, Splitting, PendingDeletion - the latter two are learnt, fence older records, but are never routed to) / invalidate / moved sequences vs model (non-trivial = a stale update was rejected). split-writer: the production writer of shard records - a real ShardSplitter split (then resumes) on either back-end - scheduled request by request against a correct updater on another node that re-assigns the old shard's replicas 1-3 times (read, modify, write under the generation read, re-read on a stale rejection) at generated positions of the split's time line; the old shard's record is observed after every step: generation rises by exactly one per version, a replica assignment only ever changes to a fresh acknowledged one (never back: that is content based on an older generation stored under a newer one), PendingDeletion is never undone, every acknowledged update appears, the final record carries the last acknowledged assignment; non-trivial = an update was acknowledged and the old shard was deactivated in the same history.",
        assumptions: &[
            "SimStore conforms to conditional-write semantics",
            "LocalMetadataClient under real threads is only sampled (no control over OS thread interleaving)",
        ],
        subs: || {
            vec![
                Box::new(Sub::<Case> { name: "s3-race", cases: |t| t.scale(300_000, 6), strategy: strategy_s3, exec: exec_s3 }),
                Box::new(Sub::<WriterCase> {
                    name: "split-writer",
                    cases: |t| t.scale(2_500, 8),
                    strategy: |_| {
                        (crate::props::c14::dataset(1), prop::collection::vec((0u8..130).prop_map(|delay| Reassign { delay }), 1..4), prop::collection::vec(any::<u16>(), 0..160))
                            .prop_map(|(data, updates, schedule)| WriterCase { data, updates, schedule })
                            .boxed()
                    },
                    exec: exec_split_writer,
                }),
                Box::new(Sub::<LocalCase> {
                    name: "local-seq",
                    cases: |t| t.scale(150_000, 4),
                    strategy: |_| prop::collection::vec(op(), 1..20).prop_map(|ops| LocalCase { ops }).boxed(),
                    exec: exec_local,
                }),
                Box::new(Sub::<RaceCase> {
                    name: "local-threads",
                    cases: |t| t.pick(16, 96),
                    strategy: |t| (0u8..7, t.pick(500u16..501, 2000u16..2001)).prop_map(|(threads, rounds)| RaceCase { threads, rounds }).boxed(),
                    exec: exec_local_race,
                }),
                Box::new(Sub::<RouterCase> {
                    name: "router",
                    cases: |t| t.scale(250_000, 4),
                    strategy: |_| {
                        prop::collection::vec(
                            prop_oneof![
                                6 => (0u8..2, 0u8..6, prop_oneof![3 => Just(0u8), 1 => Just(1u8), 1 => Just(2u8)]).prop_map(|(shard, gen, state)| ROp::Update { shard, gen, state }),
                                1 => (0u8..2).prop_map(ROp::Invalidate),
                                1 => (0u8..2, 0u8..6).prop_map(|(shard, gen)| ROp::Moved { shard, gen }),
                            ],
                            1..20,
                        )
                        .prop_map(|ops| RouterCase { ops })
                        .boxed()
                    },
                    exec: exec_router,
                }),
            ]
        },
    }
}
