//! C16 — the tiered cache is transparent.

use crate::core::*;
use crate::sim::*;
use crate::util::*;
use bytes::Bytes;
use cardinalsin::query::{CacheConfig, CachedObjectStore, TieredCache};
use object_store::path::Path;
use object_store::{GetOptions, GetRange, ObjectStore, PutPayload};
use proptest::prelude::*;
use serde::{Deserialize, Serialize};
use std::collections::BTreeMap;
use std::sync::Arc;

#[derive(Clone, Debug, Serialize, Deserialize)]
pub enum Op {
    PutNew { len: u8 },
    Get { key: u16 },
    GetRange { key: u16, a: u16, b: u16 },
    GetOptsRange { key: u16, kind: u8, a: u16 },
    GetIfMatch { key: u16, right: bool },
    GetIfNoneMatch { key: u16, right: bool },
    Head { key: u16 },
    GetMissing { name: u8 },
    ConcurrentGets { keys: Vec<u16>, schedule: Vec<u16> },
    /// 70 verified reads round-robin over all keys: makes the RAM tier run its (lazy) eviction
    Churn,
    /// a new object is written while a read of its key is under way (the reader asked before the
    /// object existed); once the write has completed, the writer reads the key through the cache.
    /// Requests and the delivery of read responses are released by the schedule.
    ReadAroundWrite { len: u8, schedule: Vec<u16> },
}

#[derive(Clone, Debug, Serialize, Deserialize)]
pub struct Case {
    /// index into L1 sizes
    pub l1: u8,
    /// 0 = no disk tier, 1 = small, 2 = large
    pub l2: u8,
    pub ops: Vec<Op>,
    /// conditional reads and heads go through a second CachedObjectStore over the same TieredCache
    /// (two engines of one process sharing the cache): what one wrapper cached, the other serves
    #[serde(default)]
    pub two_wrappers: bool,
}

const L1S: [usize; 4] = [1, 64, 4096, 1 << 20];
// the last three are 'large object' sizes (multi-part territory): generated rarely
const LENS: [usize; 9] = [0, 1, 100, 3000, 70_000, 5000, (8 << 20) + 1, (9 << 20) + 5, (16 << 20) + 3];
const NAMES: [&str; 6] = ["t/data/a.parquet", "t/data/a.parquet2", "t/other/a.parquet", "t/data/b.parquet", "a.parquet", "t/data/hour=01/a.parquet"];

fn key_name(i: usize) -> String {
    let base = NAMES[i % NAMES.len()];
    if i < NAMES.len() {
        base.to_string()
    } else {
        format!("{}.{}", base, i / NAMES.len())
    }
}

fn content(i: usize, len: usize) -> Bytes {
    let mut v = Vec::with_capacity(len);
    let mut x = (i as u64 + 1).wrapping_mul(0x9e3779b97f4a7c15);
    for _ in 0..len {
        x ^= x << 13;
        x ^= x >> 7;
        x ^= x << 17;
        v.push((x & 0xff) as u8);
    }
    Bytes::from(v)
}

async fn body(r: object_store::Result<object_store::GetResult>) -> Result<Bytes, String> {
    match r {
        Ok(g) => g.bytes().await.map_err(|e| e.to_string()),
        Err(e) => Err(e.to_string()),
    }
}

struct World {
    inner: Arc<dyn ObjectStore>,
    sut: Arc<CachedObjectStore>,
    cache: Arc<TieredCache>,
    keys: Vec<(String, Bytes)>,
    read_before: BTreeMap<String, u32>,
}

impl World {
    fn pick(&self, k: u16) -> Option<(String, Bytes)> {
        if self.keys.is_empty() {
            None
        } else {
            Some(self.keys[pick_idx(k, self.keys.len())].clone())
        }
    }
}

fn check(out: &mut Outcome, what: &str, key: &str, sut: Result<Bytes, String>, inner: Result<Bytes, String>, want: Option<Bytes>) -> bool {
    match (&sut, &inner, &want) {
        (Ok(s), _, Some(w)) => {
            if s != w {
                out.set_fail(format!("wrong-bytes:{}", what), format!("{} on {} returned {} bytes that differ from the stored object ({} bytes)", what, key, s.len(), w.len()));
                return false;
            }
        }
        (Ok(s), _, None) => {
            out.set_fail(format!("answer-for-missing-object:{}", what), format!("{} on {} (which the backing store does not have) returned {} bytes", what, key, s.len()));
            return false;
        }
        (Err(e), Ok(_), _) => {
            out.set_fail(format!("fails-where-backing-store-succeeds:{}", what), format!("{} on {}: cache layer error {} although the backing store answers", what, key, e));
            return false;
        }
        (Err(_), Err(_), _) => {}
    }
    true
}

async fn run(case: &Case, core: Option<Arc<SimCore>>, out: &mut Outcome) {
    let l2dir = crate::props::c05::scratch_dir();
    let inner: Arc<dyn ObjectStore> = match &core {
        Some(c) => c.node(0),
        None => Arc::new(object_store::memory::InMemory::new()),
    };
    let cfg = CacheConfig {
        l1_size: L1S[case.l1 as usize % 4],
        l2_size: match case.l2 % 3 {
            1 => 16 * 1024 * 1024,
            _ => 128 * 1024 * 1024,
        },
        l2_dir: if case.l2 % 3 == 0 { None } else { Some(l2dir.path().display().to_string()) },
    };
    let cache = match TieredCache::new(cfg).await {
        Ok(c) => Arc::new(c),
        Err(_) => {
            out.class("config-rejected-by-cache-library");
            return;
        }
    };
    out.class(format!("l1:{}", L1S[case.l1 as usize % 4]));
    out.class(format!("l2:{}", ["none", "small", "large"][case.l2 as usize % 3]));
    let sut = Arc::new(CachedObjectStore::new(inner.clone(), cache.clone()));
    let sut2 = if case.two_wrappers {
        out.class("second-wrapper-over-the-same-cache");
        Arc::new(CachedObjectStore::new(inner.clone(), cache.clone()))
    } else {
        sut.clone()
    };
    let mut w = World { inner, sut, cache, keys: Vec::new(), read_before: BTreeMap::new() };
    for op in &case.ops {
        match op {
            Op::PutNew { len } => {
                let i = w.keys.len();
                let name = key_name(i);
                let data = content(i, LENS[*len as usize % LENS.len()]);
                if data.len() > 1 << 20 {
                    out.class("object-larger-than-8MiB");
                }
                // written through the caching store, as a chunk upload through the same handle would be
                if w.sut.put(&Path::from(name.as_str()), PutPayload::from(data.clone())).await.is_err() {
                    out.set_fail("put-failed", name);
                    return;
                }
                w.keys.push((name, data));
            }
            Op::Get { key } => {
                if let Some((name, data)) = w.pick(*key) {
                    let misses_before = w.cache.stats().l1_misses;
                    let s = body(w.sut.get(&Path::from(name.as_str())).await).await;
                    let i = body(w.inner.get(&Path::from(name.as_str())).await).await;
                    let seen = w.read_before.entry(name.clone()).or_insert(0);
                    if *seen > 0 && w.cache.stats().l1_misses > misses_before {
                        out.nontrivial = true;
                        out.class("re-read-after-eviction");
                    }
                    *seen += 1;
                    if !check(out, "get", &name, s, i, Some(data)) {
                        return;
                    }
                }
            }
            Op::Churn => {
                if w.keys.is_empty() {
                    continue;
                }
                for k in 0..70usize {
                    let (name, data) = w.keys[k % w.keys.len()].clone();
                    let misses_before = w.cache.stats().l1_misses;
                    let s = body(w.sut.get(&Path::from(name.as_str())).await).await;
                    let seen = w.read_before.entry(name.clone()).or_insert(0);
                    if *seen > 0 && w.cache.stats().l1_misses > misses_before {
                        out.nontrivial = true;
                        out.class("re-read-after-eviction");
                    }
                    *seen += 1;
                    if !check(out, "get", &name, s, Ok(data.clone()), Some(data)) {
                        return;
                    }
                }
            }
            Op::GetRange { key, a, b } => {
                if let Some((name, data)) = w.pick(*key) {
                    let n = data.len();
                    let (lo, hi) = ((*a as usize) % (n + 2), (*b as usize) % (n + 3));
                    let (lo, hi) = if lo <= hi { (lo, hi) } else { (hi, lo) };
                    let s = w.sut.get_range(&Path::from(name.as_str()), lo..hi).await.map_err(|e| e.to_string());
                    let i = w.inner.get_range(&Path::from(name.as_str()), lo..hi).await.map_err(|e| e.to_string());
                    let want = if lo < n && lo < hi { Some(data.slice(lo..hi.min(n))) } else { i.clone().ok() };
                    if s.is_ok() && want.is_none() {
                        continue;
                    }
                    if !check(out, "get_range", &name, s, i, want) {
                        return;
                    }
                }
            }
            Op::GetOptsRange { key, kind, a } => {
                if let Some((name, data)) = w.pick(*key) {
                    let n = data.len();
                    let a = (*a as usize) % (n + 2);
                    let r = match kind % 3 {
                        0 => GetRange::Offset(a),
                        1 => GetRange::Suffix(a),
                        _ => GetRange::Bounded(a..n + 1),
                    };
                    let o = GetOptions { range: Some(r.clone()), ..Default::default() };
                    let s = body(w.sut.get_opts(&Path::from(name.as_str()), o.clone()).await).await;
                    let i = body(w.inner.get_opts(&Path::from(name.as_str()), o).await).await;
                    let want = i.clone().ok();
                    if let (Ok(sb), Some(wb)) = (&s, &want) {
                        if sb != wb {
                            out.set_fail("wrong-bytes:get_opts-range", format!("{:?} on {}", r, name));
                            return;
                        }
                    }
                    if s.is_err() && i.is_ok() {
                        out.set_fail("fails-where-backing-store-succeeds:get_opts-range", format!("{:?} on {}", r, name));
                        return;
                    }
                    if let (Ok(sb), None) = (&s, &want) {
                        // inner refuses (e.g. start beyond the end): answering with the correct slice is tolerated, wrong bytes are not
                        if !sb.is_empty() && !data.windows(sb.len().max(1)).any(|w| w == &sb[..]) {
                            out.set_fail("wrong-bytes:get_opts-range", format!("{:?} on {}", r, name));
                            return;
                        }
                    }
                }
            }
            Op::GetIfMatch { key, right } | Op::GetIfNoneMatch { key, right } => {
                if let Some((name, data)) = w.pick(*key) {
                    let etag = w.inner.head(&Path::from(name.as_str())).await.ok().and_then(|m| m.e_tag).unwrap_or_default();
                    let tag = if *right { etag } else { "no-such-etag".to_string() };
                    let o = if matches!(op, Op::GetIfMatch { .. }) { GetOptions { if_match: Some(tag), ..Default::default() } } else { GetOptions { if_none_match: Some(tag), ..Default::default() } };
                    let s = body(sut2.get_opts(&Path::from(name.as_str()), o.clone()).await).await;
                    let i = body(w.inner.get_opts(&Path::from(name.as_str()), o).await).await;
                    // a conditional read the backing store would refuse but the cache answers with the
                    // correct bytes is tolerated: the property is about bytes
                    if let Ok(sb) = &s {
                        if sb != &data {
                            out.set_fail("wrong-bytes:conditional-get", name);
                            return;
                        }
                    }
                    if s.is_err() && i.is_ok() {
                        out.set_fail("fails-where-backing-store-succeeds:conditional-get", name);
                        return;
                    }
                }
            }
            Op::Head { key } => {
                if let Some((name, data)) = w.pick(*key) {
                    match w.sut.head(&Path::from(name.as_str())).await {
                        Ok(m) => {
                            if m.size != data.len() {
                                out.set_fail("head-size-wrong", format!("{}: {} vs {}", name, m.size, data.len()));
                                return;
                            }
                        }
                        Err(e) => {
                            out.set_fail("fails-where-backing-store-succeeds:head", format!("{}: {}", name, e));
                            return;
                        }
                    }
                }
            }
            Op::GetMissing { name } => {
                // names that resemble existing keys
                let base = key_name(*name as usize % (w.keys.len() + 3));
                let missing = format!("{}.missing", base);
                let cand = [missing.clone(), format!("x/{}", base), base.trim_end_matches(".parquet").to_string()];
                for c in cand {
                    if w.keys.iter().any(|(k, _)| *k == c) {
                        continue;
                    }
                    let s = body(w.sut.get(&Path::from(c.as_str())).await).await;
                    out.class("read-of-missing-object");
                    if let Ok(b) = s {
                        out.set_fail("answer-for-missing-object:get", format!("get({}) returned {} bytes although the backing store has no such object", c, b.len()));
                        return;
                    }
                }
            }
            Op::ReadAroundWrite { len, schedule } => {
                let c = match &core {
                    Some(c) => c.clone(),
                    None => continue,
                };
                let i = w.keys.len();
                let name = key_name(i);
                let data = content(i, LENS[*len as usize % 6]);
                let early: Arc<parking_lot::Mutex<Option<Result<Bytes, String>>>> = Arc::new(parking_lot::Mutex::new(None));
                let after: Arc<parking_lot::Mutex<Option<Result<Bytes, String>>>> = Arc::new(parking_lot::Mutex::new(None));
                let mut hs = Vec::new();
                {
                    let (sut, name, early) = (w.sut.clone(), name.clone(), early.clone());
                    hs.push(tokio::spawn(async move {
                        let r = body(sut.get(&Path::from(name.as_str())).await).await;
                        *early.lock() = Some(r);
                    }));
                }
                {
                    let (sut, name, after, data, writer) = (w.sut.clone(), name.clone(), after.clone(), data.clone(), c.node(1));
                    hs.push(tokio::spawn(async move {
                        if writer.put(&Path::from(name.as_str()), PutPayload::from(data)).await.is_ok() {
                            // the write has completed: from here on the backing store holds the object
                            let r = body(sut.get(&Path::from(name.as_str())).await).await;
                            *after.lock() = Some(r);
                        }
                    }));
                }
                c.set_late_all_reads(true);
                c.set_scheduled(true);
                let run = drive_schedule(&c, &hs, schedule, None, 500).await;
                c.set_scheduled(false);
                c.set_late_all_reads(false);
                if run.end != DriveEnd::Done {
                    hs.iter().for_each(|h| h.abort());
                    out.set_fail("concurrent-reads-did-not-finish", format!("{:?}", run.end));
                    return;
                }
                for h in hs {
                    let _ = h.await;
                }
                out.class("read-under-way-while-the-object-is-written");
                let early_r = early.lock().clone();
                if let Some(Err(_)) = &early_r {
                    out.class("early-reader-told-not-found");
                    out.nontrivial = true;
                }
                if let Some(Ok(b)) = &early_r {
                    if b != &data {
                        out.set_fail("wrong-bytes:read-around-write", format!("a read of {} that overlapped its creation returned {} bytes that are not the object ({} bytes)", name, b.len(), data.len()));
                        return;
                    }
                }
                match after.lock().clone() {
                    Some(Ok(b)) if b == data => {}
                    Some(Ok(b)) => {
                        out.set_fail("wrong-bytes:get-after-write", format!("get on {} after its write completed returned {} bytes that differ from the stored object ({} bytes)", name, b.len(), data.len()));
                        return;
                    }
                    Some(Err(e)) => {
                        out.set_fail("fails-where-backing-store-succeeds:get-after-write", format!("get on {} started after the write of that object had completed, but failed: {} (a read of the key had been under way since before the object existed)", name, e));
                        return;
                    }
                    None => {}
                }
                w.keys.push((name, data));
            }
            Op::ConcurrentGets { keys, schedule } => {
                if w.keys.is_empty() {
                    continue;
                }
                let picks: Vec<(String, Bytes)> = keys.iter().filter_map(|k| w.pick(*k)).collect();
                let results: Arc<parking_lot::Mutex<Vec<(String, Result<Bytes, String>)>>> = Arc::new(parking_lot::Mutex::new(Vec::new()));
                let mut hs = Vec::new();
                for (name, _) in &picks {
                    let sut = w.sut.clone();
                    let name = name.clone();
                    let results = results.clone();
                    hs.push(tokio::spawn(async move {
                        let r = body(sut.get(&Path::from(name.as_str())).await).await;
                        results.lock().push((name, r));
                    }));
                }
                if let Some(c) = &core {
                    c.set_scheduled(true);
                    let before = c.log_len();
                    let run = drive_schedule(c, &hs, schedule, None, 500).await;
                    c.set_scheduled(false);
                    if run.end != DriveEnd::Done {
                        hs.iter().for_each(|h| h.abort());
                        out.set_fail("concurrent-reads-did-not-finish", format!("{:?}", run.end));
                        return;
                    }
                    // two misses on one key overlapped = two inner GETs for the same path in this window
                    let log = c.log();
                    let mut per: BTreeMap<String, u32> = BTreeMap::new();
                    for l in log.iter().skip(before) {
                        if l.desc.op == OpKind::Get {
                            *per.entry(l.desc.path.clone()).or_insert(0) += 1;
                        }
                    }
                    if per.values().any(|n| *n >= 2) {
                        out.nontrivial = true;
                        out.class("overlapping-misses-on-one-key");
                    }
                }
                for h in hs {
                    let _ = h.await;
                }
                out.class("concurrent-readers");
                for (name, r) in results.lock().iter() {
                    let want = picks.iter().find(|(n, _)| n == name).map(|(_, d)| d.clone());
                    let i = Ok(want.clone().unwrap_or_default());
                    if !check(out, "concurrent-get", name, r.clone(), i, want) {
                        return;
                    }
                }
            }
        }
    }
}

pub fn exec(case: &Case) -> Outcome {
    let mut out = Outcome::pass();
    if case.l2 % 3 == 0 {
        // L1 only: virtual clock, gate-controlled overlap of misses
        let rt = rt_paused();
        rt.block_on(async {
            let core = SimCore::new();
            run(case, Some(core), &mut out).await;
        });
    } else {
        // with a disk tier: foyer completes I/O on its own threads, so real time and sampled concurrency
        let rt = tokio::runtime::Builder::new_multi_thread().worker_threads(2).enable_all().build().unwrap();
        rt.block_on(async {
            run(case, None, &mut out).await;
        });
    }
    out
}

fn op() -> impl Strategy<Value = Op> {
    prop_oneof![
        4 => prop_oneof![40 => 0u8..6, 1 => 6u8..9].prop_map(|len| Op::PutNew { len }),
        8 => any::<u16>().prop_map(|key| Op::Get { key }),
        2 => (any::<u16>(), any::<u16>(), any::<u16>()).prop_map(|(key, a, b)| Op::GetRange { key, a, b }),
        2 => (any::<u16>(), 0u8..3, any::<u16>()).prop_map(|(key, kind, a)| Op::GetOptsRange { key, kind, a }),
        1 => (any::<u16>(), any::<bool>()).prop_map(|(key, right)| Op::GetIfMatch { key, right }),
        1 => (any::<u16>(), any::<bool>()).prop_map(|(key, right)| Op::GetIfNoneMatch { key, right }),
        1 => any::<u16>().prop_map(|key| Op::Head { key }),
        2 => any::<u8>().prop_map(|name| Op::GetMissing { name }),
        2 => Just(Op::Churn),
        3 => (prop::collection::vec(prop_oneof![Just(0u16), Just(20000u16), any::<u16>()], 2..5), prop::collection::vec(any::<u16>(), 0..10)).prop_map(|(keys, schedule)| Op::ConcurrentGets { keys, schedule }),
        2 => (0u8..6, prop::collection::vec(any::<u16>(), 0..8)).prop_map(|(len, schedule)| Op::ReadAroundWrite { len, schedule }),
    ]
}

fn strategy(l2: bool) -> BoxedStrategy<Case> {
    (0u8..4, if l2 { 1u8..3 } else { 0u8..1 }, prop::collection::vec(op(), 1..40), prop::bool::weighted(0.3)).prop_map(|(l1, l2, ops, two_wrappers)| Case { l1, l2, ops, two_wrappers }).boxed()
}

pub fn def() -> PropDef {
    PropDef {
        id: "C16",
        level: "exploration",
        rule: "histories of <=40 ops on CachedObjectStore(store, TieredCache{l1 in {1 B, 64 B, 4 KiB, 1 MiB}, l2 in {none, 16 MiB dir, 128 MiB dir}}): put-new-object (len in {0,1,100,3000,5000,70000}, rarely 8 MiB+1 / 9 MiB+5 / 16 MiB+3 - contents from a PRNG stream, so misplaced parts show; names that share file names / prefixes), get, get_range, get_opts{offset|suffix|bounded range, if_match, if_none_match with right / wrong etag}, head, get of similar-looking missing keys, concurrent gets of 2-4 keys (L1-only: inner reads gated and released by a generated schedule so misses on one key overlap; with a disk tier: spawned readers on a real-time runtime, sampled), a new object written while a read of its key is under way, followed - once the write has completed - by a read of the key through the cache (L1-only; requests and the delivery of read responses released by the schedule). Oracle: Ok => bytes equal the stored object (slice for ranges); no failure where the backing store answers; missing key => error. Non-trivial = a key read before is read again after it was evicted from L1 (observed through the miss counter), or two misses on one key overlapped.",
        assumptions: &["write-once objects (no overwrite / delete in the generated domain)", "configurations the cache library rejects are counted and skipped", "with a disk tier the interleaving is not controlled (foyer uses its own threads)"],
        subs: || {
            vec![
                Box::new(Sub::<Case> { name: "l1-only", cases: |t| t.scale(30_000, 4), strategy: |_| strategy(false), exec }),
                Box::new(Sub::<Case> { name: "with-disk-tier", cases: |t| t.scale(400, 8), strategy: |_| strategy(true), exec }),
            ]
        },
    }
}
