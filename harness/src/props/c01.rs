//! C01 — acknowledged writes survive crashes and storage faults.
//!
//! Real `Ingester` with a WAL synced on every write (real files), chunks on the
//! simulator, catalog either object-store-backed on the same simulator or the
//! in-memory client behind a gated wrapper.  A history is a sequence of phases;
//! each phase = (re)start (`Ingester::new` + `ensure_wal`), concurrent writers,
//! a generated schedule over every store / catalog request and the four pause
//! points, up to two injected faults, and an ending (crash at a step, kill at
//! quiescence, or graceful shutdown flush).
//!
//! Oracle (the deciding one, last step of every case): faults off, restart if
//! the last phase crashed, one forced successful flush, then every row of every
//! acknowledged write is found in a registered chunk whose object exists.

use crate::core::*;
use crate::gen::*;
use crate::rows::*;
use crate::sim::*;
use crate::simmeta::SimMetadata;
use crate::util::*;
use cardinalsin::ingester::{Ingester, IngesterConfig, WalConfig, WalSyncMode};
use cardinalsin::metadata::{LocalMetadataClient, MetadataClient, ObjectStoreMetadataClient, ObjectStoreMetadataConfig};
use cardinalsin::schema::MetricSchema;
use proptest::prelude::*;
use serde::{Deserialize, Serialize};
use std::collections::BTreeSet;
use std::sync::atomic::{AtomicBool, AtomicU32, Ordering};
use std::sync::Arc;

tokio::task_local! {
    /// first row id of the batch the current writer task is writing (seen by the pause handler)
    static WRITE_RID0: std::cell::Cell<i64>;
}

#[derive(Clone, Debug, Serialize, Deserialize)]
pub enum Ending {
    /// kill the process once everything is quiescent (no flush)
    Kill,
    /// cancel the shutdown token: final flush (may itself be hit by a fault)
    Graceful,
    /// keep the same process for the next phase
    Continue,
}

#[derive(Clone, Debug, Serialize, Deserialize)]
pub struct Phase {
    pub writers: Vec<Vec<BatchSpec>>,
    pub schedule: Vec<u16>,
    /// (driver step, decision): FailBefore / FailAfter / CrashBefore / CrashAfter
    pub faults: Vec<(u8, Decision)>,
    pub ending: Ending,
    pub timer: bool,
    /// Some(cut): the process died while a further (never acknowledged) write was being appended to
    /// the WAL - its entry is on disk up to byte `cut` (0, 1, inside the header, header | payload,
    /// len-1, any), possibly as the first bytes of a freshly rotated segment
    #[serde(default)]
    pub torn_append: Option<u16>,
}

#[derive(Clone, Debug, Serialize, Deserialize)]
pub struct Case {
    pub backend: u8,
    pub flush_rows: u8,
    pub small_segments: bool,
    pub phases: Vec<Phase>,
}

struct Proc {
    node: u32,
    ing: Arc<Ingester>,
    timer: Option<tokio::task::JoinHandle<()>>,
}

/// what a recovery starting at this point can rely on
struct RestartSnap {
    log_pos: u64,
    flushed: u64,
    stored: BTreeSet<String>,
    /// rows of WAL entries newer than the flushed mark (what ensure_wal will replay)
    recoverable: BTreeSet<String>,
}

struct World {
    core: Arc<SimCore>,
    local: Arc<LocalMetadataClient>,
    backend_s3: bool,
    wal_dir: std::path::PathBuf,
    cfg_flush_rows: usize,
    small_segments: bool,
    cur_node: Arc<AtomicU32>,
    next_node: u32,
    /// at every (re)start: (persisted flushed sequence, rows stored in registered + present chunks)
    restarts_seen: Vec<RestartSnap>,
}

impl World {
    fn metadata(&self, node: u32) -> Arc<dyn MetadataClient> {
        if self.backend_s3 {
            Arc::new(ObjectStoreMetadataClient::new(self.core.node(node), ObjectStoreMetadataConfig::default()))
        } else {
            Arc::new(SimMetadata::new(node, self.core.clone(), self.local.clone()))
        }
    }
    fn config(&self) -> IngesterConfig {
        IngesterConfig {
            flush_interval: std::time::Duration::from_millis(200),
            flush_row_count: self.cfg_flush_rows,
            flush_size_bytes: 100 * 1024 * 1024,
            max_buffer_size_bytes: 512 * 1024 * 1024,
            wal: WalConfig {
                wal_dir: self.wal_dir.clone(),
                max_segment_size: if self.small_segments { 1500 } else { 1 << 20 },
                sync_mode: WalSyncMode::EveryWrite,
                enabled: true,
            },
            ..Default::default()
        }
    }
}

#[derive(Default)]
struct Tracker {
    /// rows of acknowledged writes
    acked: Vec<String>,
    /// (first row id, rows) of every write attempt
    batches: Vec<(i64, Vec<String>)>,
}

/// Drive the tasks in `handles` with the phase's schedule and faults.  Returns
/// (finished, crashed).
async fn drive_phase(core: &Arc<SimCore>, handles: &[tokio::task::JoinHandle<()>], schedule: &[u16], faults: &[(u8, Decision)], node: u32, out: &mut Outcome, step_base: &mut u32) -> (bool, bool) {
    let crashed = AtomicBool::new(false);
    let mut pos = 0usize;
    let mut step = 0u32;
    let mut injected = 0u64;
    let mut choose = |pend: &[PendingInfo]| -> Choice {
        let sv = if pos < schedule.len() { schedule[pos] } else { ((pos as u32 * 7919) % 65521) as u16 & !7 };
        pos += 1;
        if sv % 8 == 7 && pos <= schedule.len() {
            return Choice::Wait(std::time::Duration::from_millis(120));
        }
        let pick = &pend[pick_idx(sv, pend.len())];
        let mut d = Decision::Proceed;
        for (at, fd) in faults {
            if *at as u32 == step && pick.desc.node == node {
                d = *fd;
            }
        }
        // pause points have no effect to fail: an injected error there makes no sense
        if pick.desc.op == OpKind::Pause && matches!(d, Decision::FailBefore | Decision::FailAfter) {
            d = Decision::Proceed;
        }
        step += 1;
        if d != Decision::Proceed {
            injected += 1;
        }
        if matches!(d, Decision::CrashBefore | Decision::CrashAfter) {
            crashed.store(true, Ordering::Relaxed);
        }
        Choice::Release(pick.id, d)
    };
    let mut done = || crashed.load(Ordering::Relaxed) || handles.iter().all(|h| h.is_finished());
    let end = drive(core, &mut done, &mut choose, 30_000).await;
    out.count("requests_scheduled", step as u64);
    out.count("faults_injected", injected);
    *step_base += step;
    let c = crashed.load(Ordering::Relaxed);
    if c {
        // let the crashing request take effect and park for ever
        quiesce().await;
    }
    (end == DriveEnd::Done, c)
}

/// The dead process was in the middle of appending one more (unacknowledged) write to its WAL.
async fn torn_append(world: &World, cut: u16) -> bool {
    use arrow_array::{Int64Array, RecordBatch, StringArray};
    use arrow_schema::{DataType, Field, Schema};
    if !world.wal_dir.exists() {
        return false;
    }
    let wal = match cardinalsin::ingester::WriteAheadLog::open(world.config().wal).await {
        Ok(w) => w,
        Err(_) => return false,
    };
    let mut wal = wal;
    let before = crate::props::c05::seg_files(&world.wal_dir);
    let b = RecordBatch::try_new(
        Arc::new(Schema::new(vec![Field::new("timestamp", DataType::Int64, false), Field::new("metric_name", DataType::Utf8, false), Field::new("rid", DataType::Int64, false)])),
        vec![Arc::new(Int64Array::from(vec![1_700_000_000_000_000_000i64])), Arc::new(StringArray::from(vec!["never-acknowledged"])), Arc::new(Int64Array::from(vec![-1i64]))],
    )
    .unwrap();
    if wal.append(&b).await.is_err() {
        return false;
    }
    let after = crate::props::c05::seg_files(&world.wal_dir);
    drop(wal);
    for (n, sz) in &after {
        let pre = before.get(n).cloned().unwrap_or(0);
        if *sz > pre {
            let len = (*sz - pre) as usize;
            let c = match cut % 8 {
                0 => 0,
                1 => 1,
                2 => 21,
                3 => 22,
                4 => 23,
                5 => len - 1,
                _ => (cut as usize >> 3) % len,
            }
            .min(len - 1);
            if let Ok(f) = std::fs::OpenOptions::new().write(true).open(world.wal_dir.join(n)) {
                let _ = f.set_len(pre + c as u64);
                let _ = f.sync_all();
            }
            return true;
        }
    }
    false
}

/// start a process: new Ingester + ensure_wal (schedulable, can be hit by faults)
async fn start(world: &mut World, out: &mut Outcome, faults: &[(u8, Decision)], schedule: &[u16], steps: &mut u32) -> Result<Proc, bool> {
    let node = world.next_node;
    world.next_node += 1;
    world.cur_node.store(node, Ordering::Relaxed);
    // what a recovery starting now can rely on: the persisted flushed mark, the stored rows and the
    // rows of the WAL entries it will replay (read through the public WAL API)
    {
        let flushed = cardinalsin::ingester::load_flushed_seq(&world.wal_dir).unwrap_or(0);
        let md = world.metadata(92);
        world.core.set_scheduled(false);
        let chunks = md.list_chunks().await.unwrap_or_default();
        world.core.set_scheduled(true);
        let stored: BTreeSet<String> = stored_rows(&world.core, &chunks).unwrap_or_default().into_iter().collect();
        let mut recoverable = BTreeSet::new();
        if world.wal_dir.exists() {
            if let Ok(wal) = cardinalsin::ingester::WriteAheadLog::open(world.config().wal).await {
                for e in wal.read_entries_after(flushed).unwrap_or_default() {
                    if let Ok(bs) = e.batches() {
                        recoverable.extend(rows_of_all(&bs));
                    }
                }
            }
        }
        world.restarts_seen.push(RestartSnap { log_pos: world.core.log_len() as u64, flushed, stored, recoverable });
    }
    let store = world.core.node(node);
    let md = world.metadata(node);
    let mut ing = Ingester::new(world.config(), store, md, crate::props::c06::storage_config(), MetricSchema::default_metrics());
    let slot: Arc<parking_lot::Mutex<Option<Result<Ingester, String>>>> = Arc::new(parking_lot::Mutex::new(None));
    let slot2 = slot.clone();
    let h = tokio::spawn(async move {
        let r = ing.ensure_wal().await;
        *slot2.lock() = Some(match r {
            Ok(()) => Ok(ing),
            Err(e) => Err(format!("{:?}", e)),
        });
    });
    let hs = [h];
    let (finished, crashed) = drive_phase(&world.core, &hs, schedule, faults, node, out, steps).await;
    if crashed || !finished {
        hs[0].abort();
        world.core.kill(node);
        out.class("crash-during-recovery");
        return Err(true);
    }
    let got = slot.lock().take();
    match got {
        Some(Ok(ing)) => Ok(Proc { node, ing: Arc::new(ing), timer: None }),
        Some(Err(e)) => {
            // the binary exits when ensure_wal fails: equivalent to a crash
            world.core.kill(node);
            out.class("recovery-failed-by-fault");
            let _ = e;
            Err(true)
        }
        None => {
            if let Some(p) = take_last_panic() {
                out.set_fail(format!("panic-in-recovery:{}", panic_site(&p)), p);
            }
            Err(false)
        }
    }
}

fn stored_rows(core: &SimCore, chunks: &[cardinalsin::metadata::TimeIndexEntry]) -> Result<Vec<String>, String> {
    let mut got = Vec::new();
    for c in chunks {
        if let Some(data) = core.peek(&c.chunk_path) {
            got.extend(rows_of_all(&decode_parquet(data).map_err(|e| format!("{}: {}", c.chunk_path, e))?));
        }
    }
    Ok(got)
}

pub fn exec(case: &Case) -> Outcome {
    let rt = rt_paused();
    let wal_dir = crate::props::c05::scratch_dir();
    let out = rt.block_on(async {
        let core = SimCore::new();
        let mut out = Outcome::pass();
        let cur_node = Arc::new(AtomicU32::new(0));
        // pause points -> gate
        {
            let core2 = core.clone();
            let cur = cur_node.clone();
            cardinalsin::verif_hooks::set_pause_handler(Some(Arc::new(move |point: &'static str| {
                let core3 = core2.clone();
                let node = cur.load(Ordering::Relaxed);
                let rid0 = WRITE_RID0.try_with(|c| c.get()).unwrap_or(-1);
                Box::pin(async move {
                    let _ = core3.gated(ReqDesc { node, op: OpKind::Pause, path: point.to_string(), detail: format!("{}", rid0) }, || async {}).await;
                })
            })));
        }
        let mut world = World {
            core: core.clone(),
            local: Arc::new(LocalMetadataClient::new()),
            backend_s3: case.backend % 2 == 1,
            wal_dir: wal_dir.path().to_path_buf(),
            cfg_flush_rows: 1 + (case.flush_rows % 6) as usize,
            small_segments: case.small_segments,
            cur_node,
            next_node: 1,
            restarts_seen: Vec::new(),
        };
        out.class(if world.backend_s3 { "backend:s3" } else { "backend:local" });
        core.set_scheduled(true);
        let tracker: Arc<parking_lot::Mutex<Tracker>> = Arc::new(parking_lot::Mutex::new(Tracker::default()));
        let mut rid = 0i64;
        let mut proc: Option<Proc> = None;
        let mut restarts = 0u32;
        let mut crashes = 0u32;
        let mut steps = 0u32;
        let mut any_crash_with_unflushed = false;

        for (pi, phase) in case.phases.iter().enumerate() {
            // (re)start if needed; recovery itself may crash, then try again without faults
            if proc.is_none() {
                let mut attempt = 0;
                loop {
                    let faults: &[(u8, Decision)] = if attempt == 0 && pi > 0 { &phase.faults } else { &[] };
                    match start(&mut world, &mut out, faults, &phase.schedule, &mut steps).await {
                        Ok(p) => {
                            proc = Some(p);
                            break;
                        }
                        Err(true) => {
                            attempt += 1;
                            crashes += 1;
                            if attempt > 2 {
                                out.set_fail("cannot-restart", "ensure_wal did not succeed in three attempts");
                                return out;
                            }
                        }
                        Err(false) => return out,
                    }
                }
                if pi > 0 {
                    restarts += 1;
                    // oracle (i): necessary condition right after a restart
                    let p = proc.as_ref().unwrap();
                    let md = world.metadata(90);
                    core.set_scheduled(false);
                    let chunks = md.list_chunks().await.unwrap_or_default();
                    core.set_scheduled(true);
                    let stored: BTreeSet<String> = stored_rows(&core, &chunks).unwrap_or_default().into_iter().collect();
                    let acked = tracker.lock().acked.clone();
                    let unflushed = acked.iter().filter(|r| !stored.contains(*r)).count();
                    let buffered = p.ing.buffer_stats().await.row_count;
                    out.count("restarts", 1);
                    if unflushed > 0 {
                        out.class("restart-with-unflushed-acked-rows");
                    }
                    if buffered < unflushed {
                        // remember for the signature; the deciding check is the final one
                        out.class("recovered-buffer-smaller-than-unflushed-acked");
                    }
                }
            }
            let p = proc.as_ref().unwrap();
            let node = p.node;
            // writers
            let mut handles: Vec<tokio::task::JoinHandle<()>> = Vec::new();
            for w in &phase.writers {
                let mut plan = Vec::new();
                for b in w {
                    plan.push((b.clone(), rid));
                    rid += b.rows.len() as i64;
                }
                let ing = p.ing.clone();
                let tr = tracker.clone();
                handles.push(tokio::spawn(WRITE_RID0.scope(std::cell::Cell::new(-1), async move {
                    for (spec, rid0) in plan {
                        let batch = build_batch(&spec, 1_700_000_000_000_000_000, rid0, None);
                        let rows = rows_of(&batch);
                        WRITE_RID0.with(|c| c.set(rid0));
                        tr.lock().batches.push((rid0, rows.clone()));
                        if ing.write(batch).await.is_ok() {
                            tr.lock().acked.extend(rows);
                        }
                        WRITE_RID0.with(|c| c.set(-1));
                    }
                })));
            }
            if phase.timer && proc.as_ref().unwrap().timer.is_none() {
                let ing = proc.as_ref().unwrap().ing.clone();
                proc.as_mut().unwrap().timer = Some(tokio::spawn(async move { ing.run_flush_timer().await }));
            }
            let (finished, crashed) = drive_phase(&core, &handles, &phase.schedule, &phase.faults, node, &mut out, &mut steps).await;
            if !finished && !crashed {
                out.set_fail("phase-did-not-finish", format!("phase {} neither finished nor crashed", pi));
                return out;
            }
            let mut panicked = None;
            for h in handles {
                if crashed {
                    h.abort();
                }
                if let Err(e) = h.await {
                    if e.is_panic() {
                        panicked = take_last_panic();
                    }
                }
            }
            if let Some(pm) = panicked {
                out.set_fail(format!("writer-panic:{}", panic_site(&pm)), pm);
                return out;
            }
            let ending = if crashed { Ending::Kill } else { phase.ending.clone() };
            match ending {
                Ending::Continue => {}
                Ending::Kill => {
                    let p = proc.take().unwrap();
                    if let Some(t) = &p.timer {
                        t.abort();
                    }
                    core.kill(p.node);
                    crashes += 1;
                    out.class(if crashed { "crash-at-request-or-pause-point" } else { "kill-at-quiescence" });
                    if p.ing.buffer_stats().await.row_count > 0 || crashed {
                        any_crash_with_unflushed = true;
                    }
                    drop(p);
                    if let Some(cut) = phase.torn_append {
                        if torn_append(&world, cut).await {
                            out.class("died-during-a-wal-append");
                        }
                    }
                }
                Ending::Graceful => {
                    let mut p = proc.take().unwrap();
                    let ing = p.ing.clone();
                    let timer = p.timer.take().unwrap_or_else(|| tokio::spawn(async move { ing.run_flush_timer().await }));
                    p.ing.shutdown_token().cancel();
                    let hs = [timer];
                    // faults scheduled at steps the writers did not reach may hit the shutdown flush
                    let (fin, cr) = drive_phase(&core, &hs, &[], &phase.faults, p.node, &mut out, &mut steps).await;
                    if !fin && !cr {
                        out.set_fail("shutdown-did-not-finish", format!("phase {}", pi));
                        return out;
                    }
                    hs[0].abort();
                    core.kill(p.node);
                    out.class("graceful-shutdown");
                    if cr {
                        crashes += 1;
                        any_crash_with_unflushed = true;
                    }
                }
            }
        }

        // ---- final: faults off, restart if needed, one forced successful flush ----
        core.clear_faults();
        let p = match proc.take() {
            Some(p) => p,
            None => match start(&mut world, &mut out, &[], &[], &mut steps).await {
                Ok(p) => {
                    restarts += 1;
                    p
                }
                Err(_) => {
                    out.set_fail("final-restart-failed", "ensure_wal failed without any fault");
                    return out;
                }
            },
        };
        {
            let ing = p.ing.clone();
            let timer = match p.timer {
                Some(t) => t,
                None => tokio::spawn(async move { ing.run_flush_timer().await }),
            };
            p.ing.shutdown_token().cancel();
            let hs = [timer];
            let (fin, _) = drive_phase(&core, &hs, &[], &[], p.node, &mut out, &mut steps).await;
            if !fin {
                out.set_fail("final-flush-did-not-finish", "");
                return out;
            }
        }
        core.set_scheduled(false);
        let md = world.metadata(91);
        let chunks = match md.list_chunks().await {
            Ok(c) => c,
            Err(e) => {
                out.set_fail("final-list-failed", format!("{:?}", e));
                return out;
            }
        };
        let stored: BTreeSet<String> = match stored_rows(&core, &chunks) {
            Ok(s) => s.into_iter().collect(),
            Err(e) => {
                out.set_fail("chunk-undecodable", e);
                return out;
            }
        };
        let acked = tracker.lock().acked.clone();
        let lost: Vec<&String> = acked.iter().filter(|r| !stored.contains(*r)).collect();
        if std::env::var("VERIF_DEBUG").is_ok() {
            eprintln!("acked: {:#?}\nstored: {:#?}\nchunks: {:?}", acked, stored, chunks.iter().map(|c| (&c.chunk_path, c.row_count)).collect::<Vec<_>>());
            for l in core.log() {
                eprintln!("  {:?} {:?} {} {} -> {} {:?}", l.id, l.desc.op, l.desc.path, l.desc.detail, l.outcome, l.decision);
            }
        }

        // ---- classes ----
        let log = core.log();
        let failed_flush = log.iter().any(|l| matches!(l.decision, Some(Decision::FailBefore) | Some(Decision::FailAfter)));
        if failed_flush {
            out.class("injected-request-failure");
        }
        if restarts >= 2 {
            out.class("two-or-more-restarts");
        }
        out.nontrivial = !acked.is_empty() && (any_crash_with_unflushed || failed_flush || restarts >= 2);
        let _ = crashes;

        if !lost.is_empty() {
            // structural classification of the loss
            // the end of the history counts as one more restart point: what would a recovery starting now find?
            let end_flushed = cardinalsin::ingester::load_flushed_seq(&world.wal_dir).unwrap_or(0);
            let mut end_recoverable: BTreeSet<String> = BTreeSet::new();
            if world.wal_dir.exists() {
                if let Ok(wal) = cardinalsin::ingester::WriteAheadLog::open(world.config().wal).await {
                    for e in wal.read_entries_after(end_flushed).unwrap_or_default() {
                        if let Ok(bs) = e.batches() {
                            end_recoverable.extend(rows_of_all(&bs));
                        }
                    }
                }
            }
            world.restarts_seen.push(RestartSnap { log_pos: core.log_len() as u64, flushed: end_flushed, stored: stored.clone(), recoverable: end_recoverable.clone() });
            let registered: BTreeSet<String> = chunks.iter().map(|c| c.chunk_path.clone()).collect();
            let mut taken_by_failed_flush: BTreeSet<String> = BTreeSet::new();
            for (_, path, data) in core.attempts() {
                if !registered.contains(&path) || !core.exists(&path) {
                    if let Ok(bs) = decode_parquet(data) {
                        taken_by_failed_flush.extend(rows_of_all(&bs));
                    }
                }
            }
            let all_in_failed = lost.iter().all(|r| taken_by_failed_flush.contains(*r));
            // D2 class: the row was WAL-appended before some flush, whose uploaded payload does not
            // contain it, finished truncating / persisting its flushed mark (the mark is
            // last_wal_seq at the end of the flush, not the highest sequence in the flushed data)
            let batches = tracker.lock().batches.clone();
            let append_id = |row: &String| -> Option<u64> {
                let rid0 = batches.iter().find(|(_, rows)| rows.contains(row)).map(|(r, _)| *r)?;
                log.iter().find(|l| l.desc.op == OpKind::Pause && l.desc.path == "ingester:after_wal_append" && l.desc.detail == format!("{}", rid0)).map(|l| l.id)
            };
            // WAL sequence of a row = 1-based rank of its write's after_wal_append pause among all such
            // pauses (every append reaches that pause; sequences continue across restarts)
            let appends: Vec<&ReqLog> = log.iter().filter(|l| l.desc.op == OpKind::Pause && l.desc.path == "ingester:after_wal_append").collect();
            let seq_of = |row: &String| -> Option<u64> {
                let a = append_id(row)?;
                appends.iter().position(|l| l.id == a).map(|p| p as u64 + 1)
            };
            // D2 class: at some (re)start the persisted flushed mark already covered the row's WAL
            // sequence although the row was in no registered chunk (so recovery skipped it)
            // ... or a flush truncated the WAL with such a mark (segments whose last sequence is below
            // the mark are removed) before the mark was persisted: mark at an after_truncate pause =
            // number of appends observed before it; the row was in no payload uploaded until then
            let attempts = core.attempts();
            let uploads: Vec<(u64, BTreeSet<String>)> = log
                .iter()
                .filter(|l| l.desc.op == OpKind::Put && l.desc.path.ends_with(".parquet"))
                .map(|u| {
                    let rows: BTreeSet<String> = attempts.iter().find(|(_, p, _)| *p == u.desc.path).and_then(|(_, _, d)| decode_parquet(d.clone()).ok()).map(|bs| rows_of_all(&bs).into_iter().collect()).unwrap_or_default();
                    (u.id, rows)
                })
                .collect();
            let truncs: Vec<(u64, u64)> = log.iter().filter(|l| l.desc.op == OpKind::Pause && l.desc.path == "flush:after_truncate").map(|l| (l.id, appends.iter().filter(|a| a.id < l.id).count() as u64)).collect();
            let covered_by_foreign_mark = |row: &String| -> bool {
                let sq = match seq_of(row) {
                    Some(sq) => sq,
                    None => return false,
                };
                // first restart at which the row was neither stored nor replayable: the loss happened before it
                let lost_at = world.restarts_seen.iter().find(|r| r.log_pos > append_id(row).unwrap_or(0) && !r.stored.contains(row) && !r.recoverable.contains(row));
                match lost_at {
                    Some(r) => {
                        // the persisted mark covers the row, or a flush before that restart truncated with such a mark
                        r.flushed >= sq || truncs.iter().any(|(t, mark)| *t < r.log_pos && *mark > sq && !uploads.iter().any(|(u, rows)| *u < *t && rows.contains(row)))
                    }
                    None => false,
                }
            };
            // The recorded defect is one of the *live* flush path: the mark a flush persists is
            // last_wal_seq at its end, which covers writes appended - by this same process - while or
            // before the flush ran.  The covering flush and the row's append therefore lie in the
            // same process lifetime.  A mark that a later process' recovery persisted over an entry
            // it had merely replayed into its buffer is explained by nothing recorded.
            let restart_positions: Vec<u64> = world.restarts_seen.iter().map(|r| r.log_pos).collect();
            let covered_in_its_own_lifetime = |row: &String| -> bool {
                let (a, sq) = match (append_id(row), seq_of(row)) {
                    (Some(a), Some(sq)) => (a, sq),
                    _ => return false,
                };
                truncs.iter().any(|(t, mark)| *t > a && *mark >= sq && !restart_positions.iter().any(|p| *p > a && *p <= *t))
            };
            let all_d2 = lost.iter().all(|r| (covered_by_foreign_mark(r) && covered_in_its_own_lifetime(r)) || taken_by_failed_flush.contains(*r));
            // Both known classes presuppose the order "chunk registered, then WAL truncated / mark
            // persisted" within a flush: at the arrival of the n-th after_truncate pause at least n
            // registrations have taken effect.  A history in which the WAL was truncated ahead of
            // its flush's registration is explained by neither of them.
            let reg_served: Vec<u64> = log
                .iter()
                .filter(|l| {
                    l.served > 0
                        && ((l.desc.op == OpKind::Put && l.desc.path.ends_with("catalog.json") && l.effect_seq > 0)
                            || (l.desc.op == OpKind::Meta && l.desc.detail == "register_chunk" && matches!(l.outcome.as_str(), "ok" | "err:injected-after" | "crash-after")))
                })
                .map(|l| l.served)
                .collect();
            let truncated_ahead_of_registration = log
                .iter()
                .filter(|l| l.desc.op == OpKind::Pause && l.desc.path == "flush:after_truncate")
                .enumerate()
                .any(|(n, p)| reg_served.iter().filter(|s| **s <= p.arrival_served).count() < n + 1);
            let sig = if truncated_ahead_of_registration {
                "lost:acknowledged-rows-missing"
            } else if all_in_failed && failed_flush && lost.iter().all(|r| end_recoverable.contains(*r) || covered_by_foreign_mark(r)) {
                // rows dropped from memory by a failed flush: still in the WAL (a restart would bring
                // them back), unless a later flush's mark covers them (the other known class)
                "lost:rows-taken-by-a-flush-that-failed"
            } else if all_d2 && (crashes > 0 || restarts > 0) {
                "lost:flushed-mark-covers-write-not-in-the-flushed-data"
            } else {
                "lost:acknowledged-rows-missing"
            };
            out.set_fail(sig, format!("{} of {} acknowledged rows are in no registered chunk after the final successful flush, e.g. {}", lost.len(), acked.len(), lost[0]));
        }
        out
    });
    cardinalsin::verif_hooks::set_pause_handler(None);
    out
}

fn decision() -> impl Strategy<Value = Decision> {
    prop_oneof![2 => Just(Decision::FailBefore), 2 => Just(Decision::FailAfter), 2 => Just(Decision::CrashBefore), 2 => Just(Decision::CrashAfter)]
}

fn phase() -> impl Strategy<Value = Phase> {
    (
        prop::collection::vec(prop::collection::vec(batch_spec(5), 1..4), 0..4),
        prop::collection::vec(any::<u16>(), 0..60),
        prop::collection::vec((0u8..40, decision()), 0..3),
        prop_oneof![3 => Just(Ending::Kill), 2 => Just(Ending::Graceful), 2 => Just(Ending::Continue)],
        prop::bool::weighted(0.4),
        prop::option::weighted(0.3, any::<u16>()),
    )
        .prop_map(|(writers, schedule, faults, ending, timer, torn_append)| Phase { writers, schedule, faults, ending, timer, torn_append })
}

fn strategy(t: Tier) -> BoxedStrategy<Case> {
    (0u8..2, 0u8..6, any::<bool>(), prop::collection::vec(phase(), 1..t.pick(4usize, 5usize))).prop_map(|(backend, flush_rows, small_segments, phases)| Case { backend, flush_rows, small_segments, phases }).boxed()
}

pub fn def() -> PropDef {
    PropDef {
        id: "C01",
        level: "exploration",
        rule: "1-3 (thorough 4) phases; each phase = restart (Ingester::new + ensure_wal, itself schedulable and hit by faults), 1-3 concurrent writers x 1-3 batches of 1-5 rows (schema alternation included), optional flush timer, generated schedule over every chunk upload / catalog request / catalog call and the four pause points (after WAL append, after register, after truncate, after persist), 0-2 faults {error before effect, error after effect, crash before, crash after} at generated steps, ending in {kill at quiescence, graceful shutdown flush, continue}; a killed / crashed process may have died while appending one more, never acknowledged write to its WAL (entry on disk up to a generated byte, possibly as the first bytes of a freshly rotated segment); WAL sync every write; flush_row_count 1-6; catalog = object-store client on the simulator or in-memory client behind a gate. Final step of every case: faults off, restart if down, forced successful flush, then acked rows must be a subset of rows in registered+present chunks. Non-trivial = >=1 acked write and (a crash with unflushed data, an injected request failure, or >=2 restarts).",
        assumptions: &[
            "a crash stops all tasks of the process at a request boundary or pause point; WAL files contain what was written (torn WAL tails are C05)",
            "duplicates after recovery are permitted; rows of writes that returned Err are unconstrained",
        ],
        subs: || vec![Box::new(Sub::<Case> { name: "history", cases: |t| t.scale(20_000, 6), strategy, exec })],
    }
}
