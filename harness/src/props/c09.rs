//! C09 — garbage collection and retention delete only what is safe to delete.

use crate::cenv::*;
use crate::core::*;
use crate::sim::*;
use crate::util::*;
use bytes::Bytes;
use cardinalsin::compactor::{ChunkPinRegistry, Compactor, CompactorConfig};
use cardinalsin::ingester::ChunkMetadata;
use proptest::prelude::*;
use serde::{Deserialize, Serialize};
use std::collections::{BTreeMap, BTreeSet};
use std::sync::Arc;

const GRACES: [u64; 4] = [0, 30, 300, 600];
const ADVANCES: [i64; 4] = [11, 43, 310, 700];
/// offsets of a chunk's newest row relative to the retention cut-off (seconds)
const DELTAS: [i64; 6] = [-2 * 86400, -3600, -45, 45, 3600, 86400];
const AMBIG_S: i64 = 3;
const DAY_NS: i64 = 86_400_000_000_000;

#[derive(Clone, Debug, Serialize, Deserialize)]
pub enum Op {
    Register { delta: u8, straddle: bool },
    Unreference { pick: u16 },
    Pin { picks: Vec<u16> },
    Unpin { pick: u16 },
    Advance(u8),
    Cycle { schedule: Vec<u16>, pin_at_delete: Option<u8>, crash_at: Option<u8> },
    Restart,
}

#[derive(Clone, Debug, Serialize, Deserialize)]
pub struct Case {
    pub grace: u8,
    pub retention_days: u8,
    pub backend: u8,
    pub ops: Vec<Op>,
}

struct Chunk {
    path: String,
    max_ts: i64,
    min_ts: i64,
    /// logical second at which it was unreferenced (None = live)
    unref_at: Option<i64>,
    /// deletion was scheduled with the compactor through the public call
    scheduled: bool,
}

fn config(case: &Case) -> CompactorConfig {
    CompactorConfig {
        l0_merge_threshold: 1_000_000,
        max_levels: 0,
        retention_days: (case.retention_days % 4) as u32,
        gc_grace_period: std::time::Duration::from_secs(GRACES[case.grace as usize % 4]),
        sharding_enabled: false,
        check_interval: std::time::Duration::from_secs(60),
        ..Default::default()
    }
}

fn cutoff_now(case: &Case) -> i64 {
    chrono::Utc::now().timestamp_nanos_opt().unwrap() - (case.retention_days % 4) as i64 * DAY_NS - 30_000_000_000
}

fn shift_pending_file(core: &SimCore, secs: i64) {
    if let Some(p) = core.find_path("pending-deletions.json") {
        core.surgery(&p, |b| {
            let mut v: serde_json::Value = serde_json::from_slice(b).ok()?;
            for e in v.as_array_mut()? {
                let s = e.get("scheduled_at")?.as_str()?.to_string();
                let t = chrono::DateTime::parse_from_rfc3339(&s).ok()?.with_timezone(&chrono::Utc) - chrono::Duration::seconds(secs);
                e["scheduled_at"] = serde_json::Value::String(t.to_rfc3339_opts(chrono::SecondsFormat::Nanos, true));
            }
            serde_json::to_vec(&v).ok()
        });
    }
}

pub fn exec(case: &Case) -> Outcome {
    let rt = rt_paused();
    rt.block_on(async {
        let mut out = Outcome::pass();
        let core = SimCore::new();
        let world = match CWorld::build(core.clone(), case.backend % 2 == 1, &[]).await {
            Ok(w) => w,
            Err(e) => {
                out.set_fail("build-failed", e);
                return out;
            }
        };
        let cfg = config(case);
        let grace = GRACES[case.grace as usize % 4] as i64;
        let pins = ChunkPinRegistry::new();
        let mk = |node: u32| -> Arc<Compactor> { Arc::new(Compactor::new(cfg.clone(), core.node(node), world.metadata(node), crate::qenv::storage_config(), Arc::new(cardinalsin::sharding::ShardMonitor::new(Default::default()))).with_pin_registry(pins.clone())) };
        let mut node = 1u32;
        let mut comp: Option<Arc<Compactor>> = Some(mk(node));
        let setup_md = world.metadata(80);
        let mut chunks: Vec<Chunk> = Vec::new();
        let mut guards: Vec<(BTreeSet<String>, cardinalsin::compactor::pins::PinGuard)> = Vec::new();
        let mut shift = 0i64; // logical seconds added so far
        let lnow = |shift: i64| chrono::Utc::now().timestamp() + shift;
        // paths persisted as pending by the last *completed* cycle
        let mut persisted: BTreeSet<String> = BTreeSet::new();
        let mut any_delete = false;
        let mut interesting = false;

        // one compaction cycle under the scheduler; returns false on violation
        macro_rules! run_cycle {
            ($schedule:expr, $pin_at:expr, $crash_at:expr, $final_phase:expr) => {{
                let c = match &comp {
                    Some(c) => c.clone(),
                    None => {
                        node += 1;
                        let c = mk(node);
                        comp = Some(c.clone());
                        // a fresh process loads the persisted deletions in run(); emulate through run()
                        c
                    }
                };
                let fresh_process = c.verif_pending_deletions().is_empty() && !persisted.is_empty();
                let cutoff_before = cutoff_now(case);
                let _ = cutoff_before;
                let catalog_before: BTreeSet<String> = world.catalog().await.unwrap_or_default().into_iter().map(|x| x.0).collect();
                let c2 = c.clone();
                let token = c.shutdown_token();
                let h = if fresh_process {
                    // run(): load persisted deletions, then cycle on the first tick
                    tokio::spawn(async move { c2.run().await })
                } else {
                    tokio::spawn(async move {
                        let _ = c2.run_compaction_cycle().await;
                    })
                };
                core.set_scheduled(true);
                core.set_gate_nodes(Some(vec![node]));
                let schedule: &Vec<u16> = $schedule;
                let pin_at: Option<u8> = $pin_at;
                let crash_at: Option<u8> = $crash_at;
                let mut pos = 0usize;
                let mut step = 0u32;
                let mut deletes_seen = 0u32;
                let mut idle = 0u32;
                let mut crashed = false;
                let mut persisted_this_cycle = false;
                loop {
                    quiesce().await;
                    if h.is_finished() || crashed {
                        break;
                    }
                    let pend = core.pending();
                    if pend.is_empty() {
                        idle += 1;
                        if fresh_process && persisted_this_cycle {
                            // run() loops for ever: stop it after its first cycle persisted
                            token.cancel();
                        }
                        if idle > 500 {
                            out.set_fail("cycle-did-not-finish", "gc cycle hangs");
                            return out;
                        }
                        let n = core.arrival.notified();
                        tokio::select! { _ = n => {}, _ = tokio::time::sleep(std::time::Duration::from_millis(200)) => {} }
                        continue;
                    }
                    idle = 0;
                    let sv = if pos < schedule.len() { schedule[pos] } else { 0 };
                    pos += 1;
                    let pick = pend[pick_idx(sv, pend.len())].clone();
                    if pick.desc.op == OpKind::Put && pick.desc.path.ends_with("pending-deletions.json") {
                        persisted_this_cycle = true;
                    }
                    if pick.desc.op == OpKind::Delete {
                        let path = pick.desc.path.clone();
                        if pin_at.map(|k| k as u32 == deletes_seen).unwrap_or(false) {
                            // a query pins the chunk while the delete request is in flight
                            let g = pins.pin(vec![path.clone()]);
                            guards.push(([path.clone()].into_iter().collect(), g));
                            out.class("pin-taken-while-delete-in-flight");
                            interesting = true;
                        }
                        deletes_seen += 1;
                        any_delete = true;
                        let pinned_now = guards.iter().any(|(s, _)| s.contains(&path));
                        let live_now: BTreeSet<String> = world.catalog().await.unwrap_or_default().into_iter().map(|x| x.0).collect();
                        let ch = chunks.iter().find(|c| c.path == path);
                        if path.ends_with(".json") {
                            out.set_fail("metadata-object-deleted", path);
                            return out;
                        }
                        if live_now.contains(&path) {
                            out.set_fail("live-chunk-file-deleted", format!("{} is still registered in the catalog", path));
                            return out;
                        }
                        match ch {
                            None => {
                                out.set_fail("unknown-object-deleted", path);
                                return out;
                            }
                            Some(ch) => match ch.unref_at {
                                None => {
                                    out.set_fail("never-unreferenced-file-deleted", path);
                                    return out;
                                }
                                Some(u) => {
                                    let age = lnow(shift) - u;
                                    if age < grace - AMBIG_S {
                                        out.set_fail("deleted-before-grace-period", format!("{} unreferenced for {} s, grace period {} s", path, age, grace));
                                        return out;
                                    }
                                }
                            },
                        }
                        if pinned_now {
                            let sig = if pin_at.is_some() { "pinned-file-deleted:pin-taken-after-gc-filter" } else { "pinned-file-deleted" };
                            out.set_fail(sig, format!("{} is pinned by a running query at the instant of the physical delete", path));
                            return out;
                        }
                    }
                    let mut d = Decision::Proceed;
                    if crash_at.map(|k| k as u32 == step).unwrap_or(false) {
                        d = if sv % 2 == 0 { Decision::CrashBefore } else { Decision::CrashAfter };
                        crashed = true;
                        out.class("crash-mid-cycle");
                    }
                    step += 1;
                    core.release(pick.id, d);
                }
                quiesce().await;
                if crashed {
                    h.abort();
                    core.kill(node);
                    comp = None;
                } else {
                    token.cancel();
                }
                let _ = h.await;
                core.set_scheduled(false);
                core.set_gate_nodes(None);
                // retention: chunks that left the catalog during this cycle
                let cutoff_after = cutoff_now(case);
                let catalog_after: BTreeSet<String> = world.catalog().await.unwrap_or_default().into_iter().map(|x| x.0).collect();
                for p in catalog_before.difference(&catalog_after) {
                    if let Some(ch) = chunks.iter_mut().find(|c| &c.path == p) {
                        if ch.max_ts >= cutoff_after {
                            let sig = if ch.min_ts < cutoff_after { "retention-removed-chunk-straddling-the-cut-off" } else { "retention-removed-chunk-newer-than-the-cut-off" };
                            out.set_fail(sig, format!("{} [{}..{}] was dropped although its newest row is not older than the cut-off {} (by {} s)", p, ch.min_ts, ch.max_ts, cutoff_after, (ch.max_ts - cutoff_after) / 1_000_000_000));
                            return out;
                        }
                        ch.unref_at = Some(lnow(shift));
                        out.class("retention-removed-a-chunk");
                    }
                }
                if !crashed && persisted_this_cycle {
                    // what the completed cycle persisted = what the compactor still holds
                    if let Some(c) = &comp {
                        persisted = c.verif_pending_deletions().into_iter().collect();
                    }
                }
                let _ = $final_phase;
            }};
        }

        for op in &case.ops {
            match op {
                Op::Register { delta, straddle } => {
                    let i = chunks.len();
                    let path = format!("t/data/gc/chunk_{:03}.parquet", i);
                    let cutoff = cutoff_now(case);
                    let max_ts = cutoff + DELTAS[*delta as usize % DELTAS.len()] * 1_000_000_000;
                    let min_ts = if *straddle { max_ts.min(cutoff) - 3_600_000_000_000 } else { max_ts - 1_000_000_000 };
                    if min_ts <= 0 {
                        continue;
                    }
                    core.poke(&path, Bytes::from_static(b"chunk-bytes"));
                    let meta = ChunkMetadata { path: path.clone(), min_timestamp: min_ts, max_timestamp: max_ts, row_count: 1, size_bytes: 11 };
                    if setup_md.register_chunk(&path, &meta).await.is_err() {
                        continue;
                    }
                    if *straddle && max_ts > cutoff {
                        out.class("chunk-straddles-retention-cut-off");
                        interesting = true;
                    }
                    if (max_ts - cutoff).abs() < 60_000_000_000 {
                        out.class("chunk-within-a-minute-of-the-cut-off");
                    }
                    chunks.push(Chunk { path, max_ts, min_ts, unref_at: None, scheduled: false });
                }
                Op::Unreference { pick } => {
                    let live: Vec<usize> = chunks.iter().enumerate().filter(|(_, c)| c.unref_at.is_none()).map(|(i, _)| i).collect();
                    if live.is_empty() {
                        continue;
                    }
                    let i = live[pick_idx(*pick, live.len())];
                    if setup_md.delete_chunk(&chunks[i].path).await.is_ok() {
                        chunks[i].unref_at = Some(lnow(shift));
                        if let Some(c) = &comp {
                            c.schedule_deletion(&chunks[i].path);
                            chunks[i].scheduled = true;
                        }
                    }
                }
                Op::Pin { picks } => {
                    if chunks.is_empty() {
                        continue;
                    }
                    let paths: Vec<String> = picks.iter().map(|p| chunks[pick_idx(*p, chunks.len())].path.clone()).collect();
                    if paths.is_empty() {
                        // a query that selected no chunk takes a guard too, and is over at once
                        out.class("query-that-selected-no-chunk");
                        drop(pins.pin(Vec::new()));
                        continue;
                    }
                    let g = pins.pin(paths.clone());
                    guards.push((paths.into_iter().collect(), g));
                    interesting = true;
                }
                Op::Unpin { pick } => {
                    if !guards.is_empty() {
                        let i = pick_idx(*pick, guards.len());
                        guards.remove(i);
                    }
                }
                Op::Advance(a) => {
                    let secs = ADVANCES[*a as usize % 4];
                    shift += secs;
                    core.add_shift(secs);
                    if let Some(c) = &comp {
                        c.verif_shift_pending_deletions(secs);
                    }
                    shift_pending_file(&core, secs);
                }
                Op::Restart => {
                    if let Some(c) = comp.take() {
                        core.kill(node);
                        drop(c);
                        out.class("restart");
                    }
                }
                Op::Cycle { schedule, pin_at_delete, crash_at } => {
                    run_cycle!(schedule, *pin_at_delete, *crash_at, false);
                }
            }
        }
        // ---- bounded liveness: persisted deletions are still carried out after a restart ----
        let owed: Vec<String> = persisted.iter().filter(|p| core.exists(p)).cloned().collect();
        if !owed.is_empty() {
            guards.clear();
            if let Some(c) = comp.take() {
                core.kill(node);
                drop(c);
            }
            let secs = grace + 5;
            shift += secs;
            core.add_shift(secs);
            shift_pending_file(&core, secs);
            let empty: Vec<u16> = vec![];
            run_cycle!(&empty, None, None, true);
            let still: Vec<&String> = owed.iter().filter(|p| core.exists(p)).collect();
            out.class("persisted-deletions-owed-at-restart");
            interesting = true;
            if !still.is_empty() {
                out.set_fail("persisted-deletion-not-carried-out-after-restart", format!("{:?} were persisted as pending by a completed cycle but still exist after restart + grace + one cycle", still));
                return out;
            }
        }
        if any_delete {
            out.class("a-file-was-deleted");
        }
        out.nontrivial = any_delete || interesting;
        out
    })
}


// ---- second sub-check: GC behind real compactions --------------------------------------

#[derive(Clone, Debug, Serialize, Deserialize)]
pub enum FaultAt {
    /// the n-th request of the cycle, whatever it is
    Step(u8),
    /// the n-th catalog write of the cycle (conditional PUT of catalog.json / publish_compaction / complete_compaction)
    CatalogWrite(u8),
    /// the n-th upload of a data file
    DataUpload(u8),
    /// the n-th write of any other metadata object (leases, jobs, pending deletions)
    OtherMetaWrite(u8),
}

#[derive(Clone, Debug, Serialize, Deserialize)]
pub enum GOp {
    Cycle { schedule: Vec<u16>, fault: Option<(FaultAt, Decision)> },
    Advance(u8),
    Restart,
    Pin { pick: u16 },
    Unpin { pick: u16 },
}

#[derive(Clone, Debug, Serialize, Deserialize)]
pub struct GCase {
    pub chunks: Vec<ChunkSpec>,
    pub l0_threshold: u8,
    pub l1_target: u8,
    pub grace: u8,
    pub backend: u8,
    pub ops: Vec<GOp>,
}

fn is_catalog_write(d: &ReqDesc) -> bool {
    match d.op {
        OpKind::Put => d.path.ends_with("catalog.json"),
        OpKind::Meta => matches!(d.detail.as_str(), "publish_compaction" | "complete_compaction" | "delete_chunk" | "register_chunk"),
        _ => false,
    }
}

pub fn exec_compaction(case: &GCase) -> Outcome {
    let rt = rt_paused();
    rt.block_on(async {
        let mut out = Outcome::pass();
        let core = SimCore::new();
        let mut world = match CWorld::build(core.clone(), case.backend % 2 == 1, &case.chunks).await {
            Ok(w) => w,
            Err(e) => {
                out.set_fail("build-failed", e);
                return out;
            }
        };
        out.class(if world.s3 { "backend:s3" } else { "backend:local" });
        let grace = GRACES[case.grace as usize % 4] as i64;
        let cfg = CompactorConfig {
            l0_merge_threshold: 2 + (case.l0_threshold % 2) as usize,
            l0_target_size: 1 << 20,
            l1_target_size: TARGETS[case.l1_target as usize % 4],
            l2_target_size: 1 << 30,
            max_levels: 2,
            retention_days: 90,
            gc_grace_period: std::time::Duration::from_secs(grace as u64),
            sharding_enabled: false,
            check_interval: std::time::Duration::from_secs(60),
            ..Default::default()
        };
        let pins = ChunkPinRegistry::new();
        let mk = |world: &CWorld, node: u32| -> Arc<Compactor> { Arc::new(Compactor::new(cfg.clone(), core.node(node), world.metadata(node), crate::qenv::storage_config(), Arc::new(cardinalsin::sharding::ShardMonitor::new(Default::default()))).with_pin_registry(pins.clone())) };
        let mut node = 1u32;
        let mut comp: Option<Arc<Compactor>> = Some(mk(&world, node));
        let mut shift = 0i64;
        let lnow = |shift: i64| chrono::Utc::now().timestamp() + shift;
        let mut guards: Vec<(String, cardinalsin::compactor::pins::PinGuard)> = Vec::new();
        // every path ever seen in the catalog -> logical second at which it was seen to have left it
        let mut seen: BTreeMap<String, Option<i64>> = BTreeMap::new();
        let mut persisted_any = false;
        let mut deletes = 0u32;
        let mut compaction_sources_deleted = false;

        macro_rules! observe {
            () => {{
                let now: BTreeSet<String> = world.catalog().await.unwrap_or_default().into_iter().map(|x| x.0).collect();
                for p in &now {
                    seen.entry(p.clone()).or_insert(None);
                }
                let t = lnow(shift);
                for (p, u) in seen.iter_mut() {
                    if !now.contains(p) && u.is_none() {
                        *u = Some(t);
                    } else if now.contains(p) && u.is_some() {
                        *u = None; // referenced again
                    }
                }
                now
            }};
        }
        let _ = observe!();

        for (oi, op) in case.ops.iter().enumerate() {
            match op {
                GOp::Advance(a) => {
                    let secs = ADVANCES[*a as usize % 4];
                    shift += secs;
                    core.add_shift(secs);
                    if let Some(c) = &comp {
                        c.verif_shift_pending_deletions(secs);
                    }
                    shift_pending_file(&core, secs);
                    crate::props::c03::shift_leases(&world, secs);
                }
                GOp::Restart => {
                    if let Some(c) = comp.take() {
                        core.kill(node);
                        drop(c);
                        out.class("restart");
                    }
                }
                GOp::Pin { pick } => {
                    let all: Vec<&String> = seen.keys().filter(|p| !p.starts_with("dummy/")).collect();
                    if !all.is_empty() {
                        let p = all[pick_idx(*pick, all.len())].clone();
                        let g = pins.pin(vec![p.clone()]);
                        guards.push((p, g));
                    }
                }
                GOp::Unpin { pick } => {
                    if !guards.is_empty() {
                        guards.remove(pick_idx(*pick, guards.len()));
                    }
                }
                GOp::Cycle { schedule, fault } => {
                    let mut new_process = false;
                    let c = match &comp {
                        Some(c) => c.clone(),
                        None => {
                            node += 1;
                            let c = mk(&world, node);
                            comp = Some(c.clone());
                            new_process = true;
                            c
                        }
                    };
                    // a new process goes through run(), which loads the persisted deletions first
                    let fresh_process = new_process && persisted_any;
                    let c2 = c.clone();
                    let token = c.shutdown_token();
                    let h = if fresh_process {
                        out.class("restarted-process-loads-persisted-deletions");
                        tokio::spawn(async move { c2.run().await })
                    } else {
                        tokio::spawn(async move {
                            let _ = c2.run_compaction_cycle().await;
                        })
                    };
                    core.set_scheduled(true);
                    core.set_gate_nodes(Some(vec![node]));
                    let (mut pos, mut step, mut idle) = (0usize, 0u32, 0u32);
                    let (mut n_cat, mut n_up, mut n_meta) = (0u32, 0u32, 0u32);
                    let mut crashed = false;
                    let mut fault_fired = false;
                    let mut persisted_this_cycle = false;
                    loop {
                        quiesce().await;
                        if h.is_finished() || crashed {
                            break;
                        }
                        let pend = core.pending();
                        if pend.is_empty() {
                            idle += 1;
                            if fresh_process && persisted_this_cycle {
                                token.cancel();
                            }
                            if idle > 3000 {
                                out.set_fail("cycle-did-not-finish", format!("op {}: cycle neither finished nor parked", oi));
                                return out;
                            }
                            let n = core.arrival.notified();
                            tokio::select! { _ = n => {}, _ = tokio::time::sleep(std::time::Duration::from_secs(5)) => {} }
                            continue;
                        }
                        idle = 0;
                        if step > 20_000 {
                            out.set_fail("cycle-did-not-finish", format!("op {}: more than 20000 requests", oi));
                            return out;
                        }
                        let live_now = observe!();
                        let sv = if pos < schedule.len() { schedule[pos] } else { ((pos as u32 * 7919) % 65521) as u16 };
                        pos += 1;
                        let pick = pend[pick_idx(sv, pend.len())].clone();
                        let d0 = &pick.desc;
                        if d0.op == OpKind::Put && d0.path.ends_with("pending-deletions.json") {
                            persisted_this_cycle = true;
                            persisted_any = true;
                        }
                        if d0.op == OpKind::Delete {
                            let path = d0.path.clone();
                            deletes += 1;
                            if path.ends_with(".json") {
                                out.set_fail("metadata-object-deleted", path);
                                return out;
                            }
                            if live_now.contains(&path) {
                                out.set_fail("live-chunk-file-deleted", format!("op {}: {} is registered in the catalog at the instant of the physical delete", oi, path));
                                return out;
                            }
                            match seen.get(&path) {
                                None => {
                                    // never referenced by the catalog (e.g. the output of a compaction that was not published)
                                    out.class("never-referenced-file-deleted");
                                }
                                Some(None) => unreachable!(),
                                Some(Some(u)) => {
                                    let age = lnow(shift) - u;
                                    if age < grace - AMBIG_S {
                                        out.set_fail("deleted-before-grace-period", format!("op {}: {} unreferenced for {} s, grace period {} s", oi, path, age, grace));
                                        return out;
                                    }
                                    compaction_sources_deleted = true;
                                }
                            }
                            if guards.iter().any(|(p, _)| *p == path) {
                                out.set_fail("pinned-file-deleted", format!("op {}: {} is pinned by a running query at the instant of the physical delete", oi, path));
                                return out;
                            }
                        }
                        let mut d = Decision::Proceed;
                        if let Some((at, fd)) = fault {
                            let cat = is_catalog_write(d0);
                            let up = d0.op == OpKind::Put && d0.path.ends_with(".parquet");
                            let meta = !cat && !up && (d0.op == OpKind::Put || d0.op == OpKind::Meta);
                            let hit = !fault_fired
                                && match at {
                                    FaultAt::Step(k) => *k as u32 == step,
                                    FaultAt::CatalogWrite(k) => cat && *k as u32 == n_cat,
                                    FaultAt::DataUpload(k) => up && *k as u32 == n_up,
                                    FaultAt::OtherMetaWrite(k) => meta && *k as u32 == n_meta,
                                };
                            if hit {
                                d = *fd;
                                fault_fired = true;
                                out.count("faults_injected", 1);
                                if cat {
                                    out.class(match fd {
                                        Decision::FailAfter => "catalog-write-applied-but-reported-failed",
                                        Decision::FailBefore => "catalog-write-failed",
                                        _ => "crash-at-catalog-write",
                                    });
                                }
                            }
                            n_cat += cat as u32;
                            n_up += up as u32;
                            n_meta += meta as u32;
                        }
                        step += 1;
                        if matches!(d, Decision::CrashBefore | Decision::CrashAfter) {
                            crashed = true;
                            out.class("crash-mid-cycle");
                        }
                        core.release(pick.id, d);
                    }
                    out.count("requests_scheduled", step as u64);
                    quiesce().await;
                    if crashed {
                        h.abort();
                        core.kill(node);
                        comp = None;
                    } else {
                        token.cancel();
                    }
                    if let Err(e) = h.await {
                        if e.is_panic() {
                            let p = take_last_panic().unwrap_or_default();
                            out.set_fail(format!("compactor-panic:{}", panic_site(&p)), p);
                            return out;
                        }
                    }
                    core.set_scheduled(false);
                    core.set_gate_nodes(None);
                    let _ = observe!();
                    // with nothing in flight, every row stored initially is readable through the catalog
                    match world.reachable().await {
                        Ok(got) => {
                            if got != world.initial_rows {
                                let missing = world.initial_rows.iter().filter(|r| !got.contains(r)).count();
                                let sig = if missing > 0 { "rows-unreachable-after-gc" } else { "rows-duplicated" };
                                out.set_fail(sig, format!("after op {}: {} rows reachable, {} stored, {} unreachable", oi, got.len(), world.initial_rows.len(), missing));
                                return out;
                            }
                        }
                        Err(e) => {
                            out.set_fail("catalog-unreadable", e);
                            return out;
                        }
                    }
                }
            }
        }
        if deletes > 0 {
            out.class("a-file-was-deleted");
        }
        if seen.values().any(|u| u.is_some()) {
            out.class("compaction-published");
        }
        out.nontrivial = compaction_sources_deleted;
        out
    })
}


// ---- third sub-check: a compaction that takes as long as the grace period (real time, sampled) ----

#[derive(Clone, Debug, Serialize, Deserialize)]
pub struct SlowCase {
    pub chunks: u8,
    pub backend: u8,
    /// which request of the compaction is slow: 0 = upload of the merged file, 1 = the catalog write
    /// that publishes it, 2 = the first other metadata write (job / lease records)
    pub slow: u8,
    pub schedule: Vec<u16>,
}

const SLOW_GRACE_MS: i64 = 2000;
const SLOW_DELAY_MS: u64 = 2400;

pub fn exec_slow(case: &SlowCase) -> Outcome {
    let rt = rt_paused();
    rt.block_on(async {
        let mut out = Outcome::pass();
        let core = SimCore::new();
        let n = 2 + (case.chunks % 3) as usize;
        let specs: Vec<ChunkSpec> = (0..n).map(|i| ChunkSpec { hours_ago: 1, rows: 1 + i as u8, level: 0, schema: 0 }).collect();
        let mut world = match CWorld::build(core.clone(), case.backend % 2 == 1, &specs).await {
            Ok(w) => w,
            Err(e) => {
                out.set_fail("build-failed", e);
                return out;
            }
        };
        let cfg = CompactorConfig {
            l0_merge_threshold: 2,
            l0_target_size: 1 << 20,
            l1_target_size: 1 << 30,
            l2_target_size: 1 << 30,
            max_levels: 1,
            retention_days: 90,
            gc_grace_period: std::time::Duration::from_millis(SLOW_GRACE_MS as u64),
            sharding_enabled: false,
            check_interval: std::time::Duration::from_secs(60),
            ..Default::default()
        };
        let comp = Arc::new(Compactor::new(cfg, core.node(1), world.metadata(1), crate::qenv::storage_config(), Arc::new(cardinalsin::sharding::ShardMonitor::new(Default::default()))));
        let now_ms = || chrono::Utc::now().timestamp_millis();
        let mut left_at: BTreeMap<String, i64> = BTreeMap::new();
        let mut in_catalog: BTreeSet<String> = world.catalog().await.unwrap_or_default().into_iter().map(|x| x.0).collect();
        let mut slowed = false;
        let mut deletes = 0u32;
        for cycle in 0..2 {
            if cycle == 1 {
                // the grace period passes for real
                std::thread::sleep(std::time::Duration::from_millis(SLOW_GRACE_MS as u64 + 150));
            }
            let c2 = comp.clone();
            let h = tokio::spawn(async move {
                let _ = c2.run_compaction_cycle().await;
            });
            core.set_scheduled(true);
            core.set_gate_nodes(Some(vec![1]));
            let (mut pos, mut idle, mut step) = (0usize, 0u32, 0u32);
            loop {
                quiesce().await;
                if h.is_finished() {
                    break;
                }
                let pend = core.pending();
                if pend.is_empty() {
                    idle += 1;
                    if idle > 3000 {
                        out.set_fail("cycle-did-not-finish", format!("cycle {}", cycle));
                        return out;
                    }
                    let nfy = core.arrival.notified();
                    tokio::select! { _ = nfy => {}, _ = tokio::time::sleep(std::time::Duration::from_secs(5)) => {} }
                    continue;
                }
                idle = 0;
                step += 1;
                if step > 20_000 {
                    out.set_fail("cycle-did-not-finish", "more than 20000 requests");
                    return out;
                }
                // date the instant each chunk leaves the catalog (observed at the latest one request after it happened)
                let now_set: BTreeSet<String> = world.catalog().await.unwrap_or_default().into_iter().map(|x| x.0).collect();
                for p in in_catalog.difference(&now_set) {
                    left_at.entry(p.clone()).or_insert_with(now_ms);
                }
                in_catalog = now_set;
                let sv = if pos < case.schedule.len() { case.schedule[pos] } else { ((pos as u32 * 7919) % 65521) as u16 };
                pos += 1;
                let pick = pend[pick_idx(sv, pend.len())].clone();
                let d = &pick.desc;
                let is_merged_upload = d.op == OpKind::Put && d.path.ends_with(".parquet");
                let is_publish = is_catalog_write(d);
                let is_other_meta = !is_merged_upload && !is_publish && (d.op == OpKind::Put || d.op == OpKind::Meta);
                if cycle == 0 && !slowed && [is_merged_upload, is_publish, is_other_meta][case.slow as usize % 3] {
                    // this request takes longer than the grace period
                    std::thread::sleep(std::time::Duration::from_millis(SLOW_DELAY_MS));
                    slowed = true;
                    out.class(["slow:merged-upload", "slow:publishing-catalog-write", "slow:other-metadata-write"][case.slow as usize % 3]);
                }
                if d.op == OpKind::Delete {
                    deletes += 1;
                    if in_catalog.contains(&d.path) {
                        out.set_fail("live-chunk-file-deleted", d.path.clone());
                        return out;
                    }
                    if let Some(t) = left_at.get(&d.path) {
                        let age = now_ms() - *t;
                        // the observation of 'left the catalog' lags the fact by at most one scheduling step (milliseconds)
                        if age < SLOW_GRACE_MS - 250 {
                            out.set_fail("deleted-before-grace-period:slow-compaction", format!("cycle {}: {} left the catalog {} ms ago, grace period {} ms (the compaction that replaced it took {} ms)", cycle, d.path, age, SLOW_GRACE_MS, SLOW_DELAY_MS));
                            return out;
                        }
                    }
                }
                core.release(pick.id, Decision::Proceed);
            }
            let _ = h.await;
            core.set_scheduled(false);
            core.set_gate_nodes(None);
            let now_set: BTreeSet<String> = world.catalog().await.unwrap_or_default().into_iter().map(|x| x.0).collect();
            for p in in_catalog.difference(&now_set) {
                left_at.entry(p.clone()).or_insert_with(now_ms);
            }
            in_catalog = now_set;
            match world.reachable().await {
                Ok(got) if got == world.initial_rows => {}
                Ok(got) => {
                    out.set_fail("rows-unreachable-after-gc", format!("after cycle {}: {} rows reachable, {} stored", cycle, got.len(), world.initial_rows.len()));
                    return out;
                }
                Err(e) => {
                    out.set_fail("catalog-unreadable", e);
                    return out;
                }
            }
        }
        if deletes > 0 {
            out.class("sources-deleted-after-the-grace-period");
        }
        out.nontrivial = slowed && !left_at.is_empty();
        out
    })
}

fn gop() -> impl Strategy<Value = GOp> {
    let fault_at = prop_oneof![3 => (0u8..3).prop_map(FaultAt::CatalogWrite), 2 => (0u8..40).prop_map(FaultAt::Step), 1 => (0u8..3).prop_map(FaultAt::DataUpload), 1 => (0u8..6).prop_map(FaultAt::OtherMetaWrite)];
    let decision = prop_oneof![2 => Just(Decision::FailBefore), 3 => Just(Decision::FailAfter), 1 => Just(Decision::CrashBefore), 1 => Just(Decision::CrashAfter)];
    prop_oneof![
        6 => (prop::collection::vec(any::<u16>(), 0..12), prop::option::weighted(0.5, (fault_at, decision))).prop_map(|(schedule, fault)| GOp::Cycle { schedule, fault }),
        4 => (0u8..4).prop_map(GOp::Advance),
        1 => Just(GOp::Restart),
        1 => any::<u16>().prop_map(|pick| GOp::Pin { pick }),
        1 => any::<u16>().prop_map(|pick| GOp::Unpin { pick }),
    ]
}

fn gstrategy(t: Tier) -> BoxedStrategy<GCase> {
    let chunk = (0u8..2, 0u8..6).prop_map(|(hours_ago, rows)| ChunkSpec { hours_ago, rows, level: 0, schema: 0 });
    (prop::collection::vec(chunk, 2..7), 0u8..2, 0u8..4, 0u8..4, 0u8..2, prop::collection::vec(gop(), 2..t.pick(10usize, 16usize)))
        .prop_map(|(chunks, l0_threshold, l1_target, grace, backend, ops)| GCase { chunks, l0_threshold, l1_target, grace, backend, ops })
        .boxed()
}

fn op() -> impl Strategy<Value = Op> {
    prop_oneof![
        5 => (0u8..6, prop::bool::weighted(0.3)).prop_map(|(delta, straddle)| Op::Register { delta, straddle }),
        4 => any::<u16>().prop_map(|pick| Op::Unreference { pick }),
        2 => prop::collection::vec(any::<u16>(), 1..3).prop_map(|picks| Op::Pin { picks }),
        1 => Just(Op::Pin { picks: vec![] }),
        1 => any::<u16>().prop_map(|pick| Op::Unpin { pick }),
        4 => (0u8..4).prop_map(Op::Advance),
        6 => (prop::collection::vec(any::<u16>(), 0..12), prop::option::weighted(0.3, 0u8..3), prop::option::weighted(0.15, 0u8..12)).prop_map(|(schedule, pin_at_delete, crash_at)| Op::Cycle { schedule, pin_at_delete, crash_at }),
        1 => Just(Op::Restart),
    ]
}

fn strategy(t: Tier) -> BoxedStrategy<Case> {
    (0u8..4, 0u8..4, 0u8..2, prop::collection::vec(op(), 2..t.pick(16usize, 28usize))).prop_map(|(grace, retention_days, backend, ops)| Case { grace, retention_days, backend, ops }).boxed()
}

pub fn def() -> PropDef {
    PropDef {
        id: "C09",
        level: "exploration",
        rule: "gc_grace_period in {0,30,300,600} s x retention_days 0-3 x both catalog back-ends; histories of 2-15 (thorough 27) ops from {register a chunk whose newest row is cut-off + {-2 d,-1 h,-45 s,+45 s,+1 h,+1 d}, optionally straddling the cut-off; unreference (catalog delete + the public schedule_deletion, as the call sites do); pin / unpin by a query; 11/43/310/700 s pass; compaction cycle (GC + retention + persist) under a generated schedule, optionally with a pin taken while the k-th delete request is in flight and / or a crash at a generated request; restart}; final phase: restart, grace+5 s pass, one cycle. Oracle at every physical DELETE: the path was unreferenced for >= grace (logical time, +-3 s ambiguity), is not pinned at that instant, is not registered in the catalog, is a known chunk file and not a metadata object; every chunk retention dropped has max_ts < the cut-off computed after the cycle; every deletion persisted by a completed cycle is carried out by the final phase. Non-trivial = a file was deleted, or a pinned / straddling candidate or owed persisted deletion was present. Sub-check compaction-gc: 2-6 real L0 Parquet chunks in two hour buckets, l0_merge_threshold 2-3, L1 target in {1 B, 1.5 KB, 6 KB, 1 GiB}, 2 levels, same grace periods, both back-ends; histories of 2-9 (15) ops from {full compaction cycle (merge, publish, GC, persist) under a generated schedule with an optional fault {error before, error after = applied but reported failed, crash before, crash after} at the n-th catalog write / data upload / other metadata write / request; time passing; restart (the next cycle goes through run(), which loads persisted deletions); pin / unpin of any chunk that ever was in the catalog}. The catalog is observed before every request is released, which dates the instant each chunk left it; same oracle at every physical DELETE (never-referenced files, e.g. unpublished merge outputs, may be deleted), plus after every cycle the rows reachable through the catalog equal the rows stored. Non-trivial there = a file that had been in the catalog was physically deleted. Sub-check slow-compaction (real time, sampled: 16 cases quick / 160 thorough): grace period 2 s; one request of a real compaction - the merged upload, the publishing catalog write or another metadata write - takes 2.4 s of wall-clock time; no source may be deleted earlier than 2 s (-250 ms observation lag) after it left the catalog, in that cycle or in a second one 2.15 s later.",
        assumptions: &["elapsed time = stored scheduling instants moved into the past (hook + rewrite of the persisted file)", "retention is judged with the cut-off computed after the call, which is >= any cut-off used inside it"],
        subs: || {
            vec![
                Box::new(Sub::<Case> { name: "history", cases: |t| t.scale(15_000, 5), strategy, exec }),
                Box::new(Sub::<GCase> { name: "compaction-gc", cases: |t| t.scale(8_000, 5), strategy: gstrategy, exec: exec_compaction }),
                Box::new(Sub::<SlowCase> { name: "slow-compaction", cases: |t| t.scale(16, 10), strategy: |_| (0u8..3, 0u8..2, 0u8..3, prop::collection::vec(any::<u16>(), 0..10)).prop_map(|(chunks, backend, slow, schedule)| SlowCase { chunks, backend, slow, schedule }).boxed(), exec: exec_slow }),
            ]
        },
    }
}
