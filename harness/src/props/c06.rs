//! C06 — fault-free ingest stores each accepted row exactly once, with exact metadata.

use crate::core::*;
use crate::gen::*;
use crate::rows::*;
use crate::sim::*;
use crate::simmeta::SimMetadata;
use crate::util::*;
use cardinalsin::ingester::{Ingester, IngesterConfig, TopicFilter, WalConfig, WalSyncMode};
use cardinalsin::metadata::{LocalMetadataClient, MetadataClient, ObjectStoreMetadataClient, ObjectStoreMetadataConfig};
use cardinalsin::schema::MetricSchema;
use cardinalsin::{CloudProvider, StorageConfig};
use proptest::prelude::*;
use serde::{Deserialize, Serialize};
use std::sync::Arc;

#[derive(Clone, Debug, Serialize, Deserialize)]
pub struct Case {
    pub base: i64,
    pub writers: Vec<Vec<BatchSpec>>,
    pub flush_rows: u8,
    pub tiny_buffer: bool,
    /// 0 = LocalMetadataClient behind SimMetadata, 1 = ObjectStoreMetadataClient on the SimStore
    pub backend: u8,
    pub wal: bool,
    pub timer: bool,
    pub schedule: Vec<u16>,
    /// the remaining configuration knobs: flush_parallelism {4,1,2,8} x batch_timeout {250,50,1 ms} x batch_size_bytes {8 MiB, 1 KiB}
    #[serde(default)]
    pub knobs: u8,
}

pub fn storage_config() -> StorageConfig {
    StorageConfig { provider: CloudProvider::Memory, container: "verif".to_string(), tenant_id: "t".to_string() }
}

pub fn exec(case: &Case) -> Outcome {
    let rt = rt_paused();
    let wal_dir = crate::props::c05::scratch_dir();
    rt.block_on(async {
        let core = SimCore::new();
        let mut out = Outcome::pass();
        let store = core.node(0);
        let metadata: Arc<dyn MetadataClient> = if case.backend % 2 == 0 {
            out.class("backend:local");
            Arc::new(SimMetadata::new(0, core.clone(), Arc::new(LocalMetadataClient::new())))
        } else {
            out.class("backend:s3");
            Arc::new(ObjectStoreMetadataClient::new(core.node(0), ObjectStoreMetadataConfig::default()))
        };
        let cfg = IngesterConfig {
            flush_interval: std::time::Duration::from_millis(200),
            flush_row_count: 1 + (case.flush_rows % 8) as usize,
            flush_size_bytes: 100 * 1024 * 1024,
            max_buffer_size_bytes: if case.tiny_buffer { 3000 } else { 512 * 1024 * 1024 },
            flush_parallelism: [4usize, 1, 2, 8][case.knobs as usize % 4],
            batch_timeout: std::time::Duration::from_millis([250u64, 50, 1][(case.knobs as usize / 4) % 3]),
            batch_size_bytes: [8usize << 20, 1024][(case.knobs as usize / 12) % 2],
            wal: WalConfig { wal_dir: wal_dir.path().to_path_buf(), max_segment_size: 4096, sync_mode: WalSyncMode::EveryWrite, enabled: case.wal },
            ..Default::default()
        };
        let mut ing = Ingester::new(cfg, store.clone(), metadata.clone(), storage_config(), MetricSchema::default_metrics());
        if case.wal {
            if let Err(e) = ing.ensure_wal().await {
                out.set_fail("ensure-wal-failed", format!("{:?}", e));
                return out;
            }
        }
        let ing = Arc::new(ing);
        let mut legacy_rx = ing.subscribe();
        let mut topic_rx = ing.subscribe_filtered(TopicFilter::All).await;
        core.set_scheduled(true);

        // assign row ids
        let mut rid = 0i64;
        let mut plan: Vec<Vec<(BatchSpec, i64)>> = Vec::new();
        for w in &case.writers {
            let mut v = Vec::new();
            for b in w {
                v.push((b.clone(), rid));
                rid += b.rows.len() as i64;
            }
            plan.push(v);
        }
        let accepted: Arc<parking_lot::Mutex<Vec<String>>> = Arc::new(parking_lot::Mutex::new(Vec::new()));
        let rejected = Arc::new(std::sync::atomic::AtomicU64::new(0));
        let unexpected_err: Arc<parking_lot::Mutex<Option<String>>> = Arc::new(parking_lot::Mutex::new(None));
        let mut handles = Vec::new();
        for w in plan.iter() {
            let ing = ing.clone();
            let w = w.clone();
            let base = case.base;
            let accepted = accepted.clone();
            let rejected = rejected.clone();
            let unexpected = unexpected_err.clone();
            handles.push(tokio::spawn(async move {
                for (spec, rid0) in w {
                    let batch = build_batch(&spec, base, rid0, None);
                    let rows = rows_of(&batch);
                    match ing.write(batch).await {
                        Ok(()) => accepted.lock().extend(rows),
                        Err(cardinalsin::Error::BufferFull) => {
                            rejected.fetch_add(1, std::sync::atomic::Ordering::Relaxed);
                        }
                        Err(e) => {
                            *unexpected.lock() = Some(format!("{:?}", e));
                        }
                    }
                }
            }));
        }
        let timer = if case.timer {
            let ing2 = ing.clone();
            Some(tokio::spawn(async move { ing2.run_flush_timer().await }))
        } else {
            None
        };
        let run = drive_schedule(&core, &handles, &case.schedule, None, 20_000).await;
        out.count("requests_scheduled", run.scheduled);
        if run.end != DriveEnd::Done {
            out.set_fail("writers-did-not-finish", format!("{:?}", run.end));
            return out;
        }
        for h in handles {
            if let Err(e) = h.await {
                if e.is_panic() {
                    out.set_fail(format!("writer-panic:{}", panic_site(&take_last_panic().unwrap_or_default())), "a writer task panicked".to_string());
                    return out;
                }
            }
        }
        // final flush: shutdown path
        let timer = match timer {
            Some(t) => t,
            None => {
                let ing2 = ing.clone();
                tokio::spawn(async move { ing2.run_flush_timer().await })
            }
        };
        ing.shutdown_token().cancel();
        let hs = [timer];
        let run2 = drive_schedule(&core, &hs, &[], None, 20_000).await;
        if run2.end != DriveEnd::Done {
            out.set_fail("shutdown-flush-did-not-finish", format!("{:?}", run2.end));
            return out;
        }
        core.set_scheduled(false);
        if let Some(e) = unexpected_err.lock().clone() {
            out.set_fail("write-error-without-fault", format!("a write failed although no fault was injected: {}", e));
            return out;
        }
        let stats = ing.buffer_stats().await;
        if stats.row_count != 0 {
            out.set_fail("buffer-not-empty-after-shutdown-flush", format!("{} rows still buffered", stats.row_count));
            return out;
        }

        // ---- oracle ----
        let mut want = accepted.lock().clone();
        want.sort();
        let chunks = match metadata.list_chunks().await {
            Ok(c) => c,
            Err(e) => {
                out.set_fail("list-failed", format!("{:?}", e));
                return out;
            }
        };
        let mut got: Vec<String> = Vec::new();
        let mut chunk_rowsets: Vec<Vec<String>> = Vec::new();
        for c in &chunks {
            let data = match core.peek(&c.chunk_path) {
                Some(d) => d,
                None => {
                    out.set_fail("registered-chunk-object-missing", format!("{} is registered but the object does not exist", c.chunk_path));
                    return out;
                }
            };
            let batches = match decode_parquet(data) {
                Ok(b) => b,
                Err(e) => {
                    out.set_fail("chunk-undecodable", format!("{}: {}", c.chunk_path, e));
                    return out;
                }
            };
            let rows = rows_of_all(&batches);
            if c.row_count as usize != rows.len() {
                out.set_fail("catalog-row-count-wrong", format!("{}: catalog says {} rows, object holds {}", c.chunk_path, c.row_count, rows.len()));
                return out;
            }
            match ts_bounds(&batches) {
                Some((mn, mx)) => {
                    if c.min_timestamp != mn || c.max_timestamp != mx {
                        out.set_fail("catalog-min-max-wrong", format!("{}: catalog says [{}, {}], object holds [{}, {}]", c.chunk_path, c.min_timestamp, c.max_timestamp, mn, mx));
                        return out;
                    }
                }
                None => {
                    out.set_fail("chunk-without-timestamps", c.chunk_path.clone());
                    return out;
                }
            }
            got.extend(rows.iter().cloned());
            chunk_rowsets.push(rows);
        }
        got.sort();
        if got != want {
            let missing = want.iter().filter(|r| !got.contains(r)).count();
            let extra = got.len() as i64 - (want.len() as i64 - missing as i64);
            let sig = if missing > 0 { "accepted-rows-missing-or-changed" } else { "rows-repeated-or-invented" };
            let first = want.iter().find(|r| !got.contains(r)).cloned().or_else(|| got.iter().find(|r| !want.contains(r)).cloned()).unwrap_or_default();
            out.set_fail(sig, format!("stored rows != accepted rows: {} accepted, {} stored, {} accepted rows not found, {} surplus; e.g. {}", want.len(), got.len(), missing, extra, first));
            return out;
        }
        // ---- announcements ----
        let mut legacy: Vec<Vec<String>> = Vec::new();
        while let Ok(b) = legacy_rx.try_recv() {
            legacy.push(rows_of_all(&[b]));
        }
        let mut topic: Vec<Vec<String>> = Vec::new();
        loop {
            match tokio::time::timeout(std::time::Duration::from_millis(1), topic_rx.recv()).await {
                Ok(Ok(b)) => topic.push(rows_of_all(&[b])),
                _ => break,
            }
        }
        chunk_rowsets.sort();
        legacy.sort();
        topic.sort();
        if legacy != chunk_rowsets {
            out.set_fail("legacy-broadcast-mismatch", format!("{} chunks registered, {} batches announced on the broadcast channel (or with different rows)", chunk_rowsets.len(), legacy.len()));
            return out;
        }
        if topic != chunk_rowsets {
            out.set_fail("topic-broadcast-mismatch", format!("{} chunks registered, {} batches announced on the topic channel (or with different rows)", chunk_rowsets.len(), topic.len()));
            return out;
        }
        // ---- classes / non-triviality ----
        let flushes = chunks.len();
        let schema_alternation = case.writers.iter().flatten().map(|b| b.schema % SCHEMAS.len() as u8).collect::<std::collections::BTreeSet<_>>().len() > 1;
        if schema_alternation {
            out.class("schema-alternation");
        }
        if case.writers.len() > 1 {
            out.class("concurrent-writers");
        }
        if rejected.load(std::sync::atomic::Ordering::Relaxed) > 0 {
            out.class("back-pressure-rejection");
        }
        if case.wal {
            out.class("wal-enabled");
        }
        out.nontrivial = flushes >= 2 && (schema_alternation || case.writers.len() > 1);
        out.count("chunks", flushes as u64);
        out
    })
}

fn strategy(t: Tier) -> BoxedStrategy<Case> {
    let maxw = t.pick(4usize, 5usize);
    let maxb = t.pick(6usize, 10usize);
    (
        base_ts(),
        prop::collection::vec(prop::collection::vec(batch_spec(6), 1..=maxb), 1..=maxw),
        0u8..8,
        prop::bool::weighted(0.15),
        0u8..2,
        prop::bool::weighted(0.3),
        any::<bool>(),
        prop::collection::vec(any::<u16>(), 0..150),
    )
        .prop_map(|(base, writers, flush_rows, tiny_buffer, backend, wal, timer, schedule)| Case { base, writers, flush_rows, tiny_buffer, backend, wal, timer, schedule, knobs: 0 })
        .boxed()
}

pub fn def() -> PropDef {
    PropDef {
        id: "C06",
        level: "exploration",
        rule: "1-4 (thorough 5) concurrent writers x 1-6 (10) batches of 1-6 rows; 6 schema variants (Int64 / Timestamp(ns) / Timestamp(ns,UTC) timestamps, 0-3 nullable labels, f64 and/or i64 values incl. +-0, NaN, +-inf, limits, empty / non-ASCII strings), unique row ids; base timestamps of either sign up to 2^62, <=72 h span; flush_row_count 1-8, sometimes a tiny buffer (back-pressure), optional WAL, optional flush timer, flush_parallelism {4,1,2,8} x batch_timeout {250,50,1 ms} x batch_size_bytes {8 MiB,1 KiB}, final shutdown flush; interleaving = generated schedule over every chunk upload and catalog request, with 150-1200 ms of virtual time passing at generated steps while requests are parked (a slow store); LocalMetadataClient (gated per call) or ObjectStoreMetadataClient. Non-trivial = at least 2 flushes and (schema alternation or >= 2 writers).",
        assumptions: &["no crashes, storage errors or shard splits (that is C01 / C15)", "broadcast capacity (1024) exceeds the number of flushes"],
        subs: || vec![Box::new(Sub::<Case> { name: "ingest", cases: |t| t.scale(20_000, 6), strategy: |t| (strategy(t), prop_oneof![1 => Just(0u8), 2 => 0u8..24]).prop_map(|(mut c, k)| { c.knobs = k; c }).boxed(), exec })],
    }
}
