//! C17 — ingest protocol conversion is faithful, and no payload can crash the receiver.

use crate::core::*;
use crate::rows::*;
use crate::util::*;
use arrow_array::cast::AsArray;
use arrow_array::types::*;
use arrow_array::{Array, RecordBatch};
use bytes::Bytes;
use cardinalsin::api::ApiState;
use cardinalsin::ingester::{Ingester, IngesterConfig, WalConfig};
use cardinalsin::metadata::{LocalMetadataClient, MetadataClient};
use cardinalsin::query::{QueryConfig, QueryNode};
use cardinalsin::schema::MetricSchema;
use object_store::ObjectStore;
use proptest::prelude::*;
use serde::{Deserialize, Serialize};
use std::collections::BTreeMap;
use std::sync::Arc;

// ---------------------------------------------------------------------------
// remote-write model + own protobuf encoder
// ---------------------------------------------------------------------------

#[derive(Clone, Debug, Serialize, Deserialize)]
pub struct PSeries {
    pub name: u8,
    /// (label name index, value index); names unique per series
    pub labels: Vec<(u8, u8)>,
    /// (timestamp ms selector, value selector)
    pub samples: Vec<(u8, u8)>,
    /// position of the `__name__` label among the series' labels (protobuf order is the
    /// sender's; a sender that sorts puts labels such as `Env` before `__name__`)
    #[serde(default)]
    pub name_pos: u8,
}

#[derive(Clone, Debug, Serialize, Deserialize)]
pub struct PReq {
    pub series: Vec<PSeries>,
    /// encoder variations: 0 canonical, 1 samples before labels, 2 unknown fields interleaved, 3 non-minimal varints
    pub enc: u8,
    /// label names that collide with built-in columns are allowed (separate class)
    pub colliding_labels: bool,
    #[serde(default)]
    pub ts_base: u8,
}

pub const PNAMES: [&str; 4] = ["cpu_usage", "http_requests_total", "m", "mem.bytes:ratio"];
pub const LNAMES: [&str; 6] = ["host", "job", "instance", "le", "zone", "é_label"];
pub const COLLIDING: [&str; 3] = ["timestamp", "metric_name", "value_f64"];
pub const LVALS: [&str; 6] = ["a", "b", "", "web-1", "ü✓", "x y"];
/// per-request base (ms) + per-sample offset: one request spans at most two days (the catalog
/// materialises one index entry per hour of a chunk's span)
pub const TS_BASE_MS: [i64; 6] = [0, 1_700_000_000_000, -1_000_000_000_000, 9_000_000_000_000, -9_000_000_000_000, 1];
pub const TS_OFF_MS: [i64; 7] = [0, 1, -1, 3_600_000, 86_400_000, -86_400_000, 999];
pub fn ts_ms(base: u8, t: u8) -> i64 {
    TS_BASE_MS[base as usize % TS_BASE_MS.len()] + TS_OFF_MS[t as usize % TS_OFF_MS.len()]
}
pub fn pvalue(sel: u8) -> f64 {
    const V: [f64; 16] = [0.0, 1.0, -1.0, 0.5, -2.25, 1e300, 9007199254740992.0, 9007199254740993.0, -9007199254740992.0, 9223372036854775808.0, -9223372036854775808.0, 18446744073709551616.0, f64::NAN, f64::INFINITY, f64::NEG_INFINITY, 42.0];
    V[sel as usize % V.len()]
}

fn varint(mut v: u64, non_minimal: bool, out: &mut Vec<u8>) {
    loop {
        let b = (v & 0x7f) as u8;
        v >>= 7;
        if v == 0 {
            if non_minimal {
                out.push(b | 0x80);
                out.push(0x00);
            } else {
                out.push(b);
            }
            return;
        }
        out.push(b | 0x80);
    }
}

fn len_delim(field: u32, body: &[u8], nm: bool, out: &mut Vec<u8>) {
    varint(((field << 3) | 2) as u64, false, out);
    varint(body.len() as u64, nm, out);
    out.extend_from_slice(body);
}

pub fn label_name(req: &PReq, l: u8) -> String {
    if req.colliding_labels && l as usize % 9 >= 6 {
        COLLIDING[l as usize % 3].to_string()
    } else {
        LNAMES[l as usize % LNAMES.len()].to_string()
    }
}

pub fn encode_remote_write(req: &PReq) -> Vec<u8> {
    let nm = req.enc % 4 == 3;
    let mut out = Vec::new();
    for s in &req.series {
        let mut ts = Vec::new();
        let mut labels = Vec::new();
        let mut name_label = Vec::new();
        len_delim(1, b"__name__", nm, &mut name_label);
        len_delim(2, PNAMES[s.name as usize % PNAMES.len()].as_bytes(), nm, &mut name_label);
        let name_at = s.name_pos as usize % (s.labels.len() + 1);
        for (k, (n, v)) in s.labels.iter().enumerate() {
            if k == name_at {
                len_delim(1, &name_label, nm, &mut labels);
            }
            let mut l = Vec::new();
            len_delim(1, label_name(req, *n).as_bytes(), nm, &mut l);
            if req.enc % 4 == 2 {
                // unknown field inside the label message
                varint((9 << 3) | 0, false, &mut l);
                varint(77, false, &mut l);
            }
            len_delim(2, LVALS[*v as usize % LVALS.len()].as_bytes(), nm, &mut l);
            len_delim(1, &l, nm, &mut labels);
        }
        if name_at == s.labels.len() {
            len_delim(1, &name_label, nm, &mut labels);
        }
        let mut samples = Vec::new();
        for (t, v) in &s.samples {
            let mut sm = Vec::new();
            varint((1 << 3) | 1, false, &mut sm);
            sm.extend_from_slice(&pvalue(*v).to_le_bytes());
            varint((2 << 3) | 0, false, &mut sm);
            varint(ts_ms(req.ts_base, *t) as u64, false, &mut sm);
            len_delim(2, &sm, nm, &mut samples);
        }
        if req.enc % 4 == 1 {
            ts.extend_from_slice(&samples);
            ts.extend_from_slice(&labels);
        } else {
            ts.extend_from_slice(&labels);
            if req.enc % 4 == 2 {
                // unknown length-delimited and fixed fields between labels and samples
                len_delim(7, b"exemplar?", nm, &mut ts);
                varint((8 << 3) | 5, false, &mut ts);
                ts.extend_from_slice(&[1, 2, 3, 4]);
            }
            ts.extend_from_slice(&samples);
        }
        len_delim(1, &ts, nm, &mut out);
    }
    if req.enc % 4 == 2 {
        // unknown top-level field (metadata)
        len_delim(3, b"meta", nm, &mut out);
    }
    out
}

pub fn snappy(data: &[u8]) -> Vec<u8> {
    snap::raw::Encoder::new().compress_vec(data).unwrap()
}

// ---------------------------------------------------------------------------
// receiver set-up
// ---------------------------------------------------------------------------

pub struct Receiver {
    pub store: Arc<dyn ObjectStore>,
    pub metadata: Arc<dyn MetadataClient>,
    pub ingester: Arc<Ingester>,
    pub state: ApiState,
}

pub async fn receiver() -> Receiver {
    let store: Arc<dyn ObjectStore> = Arc::new(object_store::memory::InMemory::new());
    let metadata: Arc<dyn MetadataClient> = Arc::new(LocalMetadataClient::new());
    let cfg = IngesterConfig { flush_row_count: 1, wal: WalConfig { enabled: false, ..Default::default() }, ..Default::default() };
    let ingester = Arc::new(Ingester::new(cfg, store.clone(), metadata.clone(), crate::qenv::storage_config(), MetricSchema::default_metrics()));
    // the ingest handlers never touch the query node: build it once per worker process
    static QN: std::sync::OnceLock<Arc<QueryNode>> = std::sync::OnceLock::new();
    let qn = match QN.get() {
        Some(q) => q.clone(),
        None => {
            let s2: Arc<dyn ObjectStore> = Arc::new(object_store::memory::InMemory::new());
            let m2: Arc<dyn MetadataClient> = Arc::new(LocalMetadataClient::new());
            let q = Arc::new(QueryNode::new(QueryConfig { l1_cache_size: 1 << 20, l2_cache_size: 0, l2_cache_dir: None, ..Default::default() }, s2, m2, crate::qenv::storage_config()).await.expect("query node"));
            let _ = QN.set(q.clone());
            q
        }
    };
    let state = ApiState { ingester: ingester.clone(), query_node: qn };
    Receiver { store, metadata, ingester, state }
}

/// One stored row in protocol terms: (timestamp ns, metric name, labels, value)
#[derive(Debug, Clone, PartialEq)]
pub struct StoredRow {
    pub ts: i64,
    pub name: String,
    pub labels: BTreeMap<String, String>,
    /// exactly one of the typed value columns must be set
    pub values: Vec<String>,
}

pub async fn stored_rows(r: &Receiver) -> Result<Vec<RecordBatch>, String> {
    let mut out = Vec::new();
    for c in r.metadata.list_chunks().await.map_err(|e| format!("{:?}", e))? {
        let data = r.store.get(&c.chunk_path.clone().into()).await.map_err(|e| e.to_string())?.bytes().await.map_err(|e| e.to_string())?;
        out.extend(decode_parquet(data)?);
    }
    Ok(out)
}

fn num_eq_f64(col: &dyn Array, row: usize, want: f64) -> Option<bool> {
    if col.is_null(row) {
        return None;
    }
    Some(match col.data_type() {
        arrow_schema::DataType::Float64 => {
            let v = col.as_primitive::<Float64Type>().value(row);
            (v.is_nan() && want.is_nan()) || v == want
        }
        arrow_schema::DataType::Int64 => {
            let v = col.as_primitive::<Int64Type>().value(row);
            // exact comparison as reals: want must be integral and equal
            want.is_finite() && want.fract() == 0.0 && want >= -9223372036854775808.0 && want < 9223372036854775808.0 && (want as i64) == v && (v as f64) == want
        }
        arrow_schema::DataType::UInt64 => {
            let v = col.as_primitive::<UInt64Type>().value(row);
            want.is_finite() && want.fract() == 0.0 && want >= 0.0 && want < 18446744073709551616.0 && (want as u64) == v && (v as f64) == want
        }
        _ => false,
    })
}

/// Compare stored batches with the expected samples.  `expected`: (ts ns, name, labels, value)
pub fn compare(batches: &[RecordBatch], expected: &[(i64, String, BTreeMap<String, String>, f64)], value_cols: &[&str]) -> Result<(), (String, String)> {
    // render stored rows
    let mut stored: Vec<(i64, String, BTreeMap<String, String>, usize, usize)> = Vec::new(); // + (batch, row)
    for (bi, b) in batches.iter().enumerate() {
        let schema = b.schema();
        for r in 0..b.num_rows() {
            let ts = ts_bounds(&[b.slice(r, 1)]).map(|x| x.0).ok_or(("row-without-timestamp".to_string(), String::new()))?;
            let name = b.column_by_name("metric_name").and_then(|c| cell(c, r, false)).map(|s| s.trim_start_matches("S:").to_string()).unwrap_or_default();
            let mut labels = BTreeMap::new();
            for (ci, f) in schema.fields().iter().enumerate() {
                let n = f.name();
                if n == "timestamp" || n == "metric_name" || value_cols.contains(&n.as_str()) {
                    continue;
                }
                if let Some(v) = cell(b.column(ci), r, false) {
                    labels.insert(n.clone(), v.trim_start_matches("S:").to_string());
                }
            }
            stored.push((ts, name, labels, bi, r));
        }
    }
    if stored.len() != expected.len() {
        return Err((if stored.len() < expected.len() { "samples-missing" } else { "samples-surplus" }.to_string(), format!("{} samples sent, {} rows stored", expected.len(), stored.len())));
    }
    let mut used = vec![false; stored.len()];
    for (ets, ename, elabels, evalue) in expected {
        // labels with an empty value: absent or present-empty are both accepted
        let elabels_nonempty: BTreeMap<String, String> = elabels.iter().filter(|(_, v)| !v.is_empty()).map(|(k, v)| (k.clone(), v.clone())).collect();
        let mut found = false;
        let mut near: Option<String> = None;
        for (i, (ts, name, labels, bi, r)) in stored.iter().enumerate() {
            if used[i] || ts != ets || name != ename {
                continue;
            }
            let labels_nonempty: BTreeMap<String, String> = labels.iter().filter(|(_, v)| !v.is_empty()).map(|(k, v)| (k.clone(), v.clone())).collect();
            if labels_nonempty != elabels_nonempty {
                near = Some(format!("labels {:?} vs expected {:?}", labels, elabels));
                continue;
            }
            // exactly one value column set, numerically equal
            let b = &batches[*bi];
            let mut set = 0;
            let mut equal = false;
            for vc in value_cols {
                if let Some(col) = b.column_by_name(vc) {
                    if let Some(eq) = num_eq_f64(col.as_ref(), *r, *evalue) {
                        set += 1;
                        equal |= eq;
                    }
                }
            }
            if set != 1 || !equal {
                near = Some(format!("value columns set: {}, numerically equal: {} (expected {:e})", set, equal, evalue));
                continue;
            }
            used[i] = true;
            found = true;
            break;
        }
        if !found {
            let sig = match &near {
                Some(n) if n.starts_with("value") => "value-not-numerically-equal",
                Some(_) => "label-set-differs",
                None => "sample-not-found",
            };
            return Err((sig.to_string(), format!("sample ({}, {}, {:?}, {:e}) has no matching stored row; closest: {:?}", ets, ename, elabels, evalue, near)));
        }
    }
    Ok(())
}

pub fn expected_prom(req: &PReq) -> Vec<(i64, String, BTreeMap<String, String>, f64)> {
    let mut v = Vec::new();
    for s in &req.series {
        let labels: BTreeMap<String, String> = s.labels.iter().map(|(n, val)| (label_name(req, *n), LVALS[*val as usize % LVALS.len()].to_string())).collect();
        for (t, val) in &s.samples {
            v.push((ts_ms(req.ts_base, *t) * 1_000_000, PNAMES[s.name as usize % PNAMES.len()].to_string(), labels.clone(), pvalue(*val)));
        }
    }
    v
}

fn norm_series(req: &PReq) -> PReq {
    // unique label names per series
    let mut r = req.clone();
    for s in &mut r.series {
        let mut seen = std::collections::BTreeSet::new();
        let rr = r.colliding_labels;
        s.labels.retain(|(n, _)| {
            let name = if rr && *n as usize % 9 >= 6 { COLLIDING[*n as usize % 3].to_string() } else { LNAMES[*n as usize % LNAMES.len()].to_string() };
            seen.insert(name)
        });
    }
    r
}

pub fn exec_prom_fidelity(req: &PReq) -> Outcome {
    let req = norm_series(req);
    let rt = rt_plain();
    rt.block_on(async {
        let mut out = Outcome::pass();
        let r = receiver().await;
        let body = snappy(&encode_remote_write(&req));
        use axum::response::IntoResponse;
        use futures::FutureExt;
        let resp = std::panic::AssertUnwindSafe(cardinalsin::api::ingest::prometheus::handle_remote_write(axum::extract::State(r.state.clone()), Bytes::from(body))).catch_unwind().await;
        let total: usize = req.series.iter().map(|s| s.samples.len()).sum();
        let has_empty_series = req.series.iter().any(|s| s.samples.is_empty());
        let all_empty = total == 0;
        let colliding = req.colliding_labels && req.series.iter().any(|s| s.labels.iter().any(|(n, _)| *n as usize % 9 >= 6));
        let tags = format!("{}{}{}", if all_empty { "no-samples" } else { "" }, if has_empty_series && !all_empty { "some-series-without-samples" } else { "" }, if colliding { "+label-collides-with-built-in-column" } else { "" });
        let status = match resp {
            Ok(resp) => resp.into_response().status(),
            Err(_) => {
                let p = take_last_panic().unwrap_or_default();
                out.set_fail(format!("receiver-panic:{}:{}", panic_site(&p), tags), format!("well-formed remote-write request made the handler panic: {}", p.chars().take(160).collect::<String>()));
                return out;
            }
        };
        let distinct_label_sets = req.series.iter().map(|s| format!("{:?}", s.labels)).collect::<std::collections::BTreeSet<_>>().len();
        let vals: Vec<f64> = req.series.iter().flat_map(|s| s.samples.iter().map(|(_, v)| pvalue(*v))).collect();
        out.nontrivial = req.series.len() >= 2 && distinct_label_sets >= 2 && vals.iter().any(|v| v.is_finite() && v.fract() == 0.0) && vals.iter().any(|v| v.is_finite() && v.fract() != 0.0);
        out.class(format!("encoder:{}", ["canonical", "samples-first", "unknown-fields", "non-minimal-varints"][req.enc as usize % 4]));
        if colliding {
            out.class("label-collides-with-built-in-column");
        }
        if all_empty {
            // nothing to store: any status is fine as long as nothing was stored and nothing crashed
            out.class("request-without-samples");
            return out;
        }
        if !status.is_success() {
            out.set_fail(format!("well-formed-request-refused:{}", tags), format!("status {} for a well-formed request with {} samples", status, total));
            return out;
        }
        let batches = match stored_rows(&r).await {
            Ok(b) => b,
            Err(e) => {
                out.set_fail("stored-chunk-unreadable", e);
                return out;
            }
        };
        if let Err((sig, msg)) = compare(&batches, &expected_prom(&req), &["value_f64", "value_i64", "value_u64"]) {
            // structural class: only the collision matters for what is comparable
            out.set_fail(format!("prom:{}:{}", sig, if colliding { "+label-collides-with-built-in-column" } else { "" }), msg);
        }
        out
    })
}

// ---------------------------------------------------------------------------
// totality: mutated encodings and raw bytes through the public handler
// ---------------------------------------------------------------------------

#[derive(Clone, Debug, Serialize, Deserialize)]
pub enum Mut {
    Truncate(u16),
    Flip(u16, u8),
    Splice(u16, Vec<u8>),
    /// rewrite the varint starting at the k-th length byte to a hostile value
    HostileLen(u16, u8),
    None,
}

#[derive(Clone, Debug, Serialize, Deserialize)]
pub struct BytesCase {
    pub base: PReq,
    pub muts: Vec<Mut>,
    /// 0 = snappy-wrap the mutated protobuf, 1 = mutate the snappy stream itself, 2 = raw random bytes
    pub mode: u8,
    pub raw: Vec<u8>,
}

const HOSTILE: [u64; 8] = [0, 1 << 32, 1 << 63, u64::MAX, u64::MAX - 7, (1 << 31) - 1, 0x7fff_ffff_ffff_ffff, 1 << 20];

fn apply_muts(mut data: Vec<u8>, muts: &[Mut]) -> Vec<u8> {
    for m in muts {
        if data.is_empty() {
            break;
        }
        match m {
            Mut::Truncate(k) => {
                let n = *k as usize % (data.len() + 1);
                data.truncate(n);
            }
            Mut::Flip(k, b) => {
                let i = *k as usize % data.len();
                data[i] ^= 1 << (b % 8);
            }
            Mut::Splice(k, bytes) => {
                let i = *k as usize % (data.len() + 1);
                data.splice(i..i, bytes.iter().cloned());
            }
            Mut::HostileLen(k, h) => {
                // find the k-th byte that follows a length-delimited tag (0x0a / 0x12) and replace the varint there
                let idx: Vec<usize> = data.iter().enumerate().filter(|(_, b)| **b == 0x0a || **b == 0x12).map(|(i, _)| i + 1).collect();
                if !idx.is_empty() {
                    let i = idx[*k as usize % idx.len()];
                    if i < data.len() {
                        let mut end = i;
                        while end < data.len() && data[end] & 0x80 != 0 {
                            end += 1;
                        }
                        let mut v = Vec::new();
                        varint(HOSTILE[*h as usize % HOSTILE.len()], false, &mut v);
                        data.splice(i..(end + 1).min(data.len()), v);
                    }
                }
            }
            Mut::None => {}
        }
    }
    data
}

pub fn exec_prom_bytes(c: &BytesCase) -> Outcome {
    let rt = rt_plain();
    rt.block_on(async {
        let mut out = Outcome::pass();
        let r = receiver().await;
        let base = encode_remote_write(&norm_series(&c.base));
        let body = match c.mode % 3 {
            0 => snappy(&apply_muts(base, &c.muts)),
            1 => apply_muts(snappy(&base), &c.muts),
            _ => c.raw.clone(),
        };
        let past_snappy = snap::raw::Decoder::new().decompress_vec(&body).is_ok();
        out.nontrivial = past_snappy;
        out.class(if past_snappy { "got-past-snappy" } else { "rejected-by-snappy" });
        use axum::response::IntoResponse;
        use futures::FutureExt;
        let fut = std::panic::AssertUnwindSafe(cardinalsin::api::ingest::prometheus::handle_remote_write(axum::extract::State(r.state.clone()), Bytes::from(body))).catch_unwind();
        match PollBudget::new(fut, 2000).await {
            None => {
                out.set_fail("receiver-hang", "handle_remote_write did not answer within 2000 polls");
            }
            Some(Err(_)) => {
                let p = take_last_panic().unwrap_or_default();
                out.set_fail(format!("receiver-panic:{}", panic_site(&p)), format!("request body made the handler panic: {}", p.chars().take(160).collect::<String>()));
            }
            Some(Ok(resp)) => {
                let st = resp.into_response().status();
                out.class(format!("status:{}", st.as_u16()));
            }
        }
        out
    })
}

// ---------------------------------------------------------------------------
// OTLP
// ---------------------------------------------------------------------------

#[derive(Clone, Debug, Serialize, Deserialize)]
pub struct OPoint {
    pub kind: u8, // 0 gauge double, 1 gauge int, 2 sum double, 3 sum int, 4 histogram, 5 summary
    pub name: u8,
    pub ts: u8,
    pub value: u8,
    pub attrs: Vec<(u8, u8)>,
}

#[derive(Clone, Debug, Serialize, Deserialize)]
pub struct OReq {
    /// per resource: attributes + points
    pub resources: Vec<(Vec<(u8, u8)>, Vec<OPoint>)>,
    #[serde(default)]
    pub ts_base: u8,
}

const OTS_BASE: [u64; 4] = [1, 1_700_000_000_000_000_000, 9_000_000_000_000_000_000, 86_400_000_000_000];
const OTS_OFF: [u64; 5] = [0, 1, 123, 3_600_000_000_000, 86_400_000_000_000];
const OINTS: [i64; 8] = [0, 1, -1, 42, 9007199254740992, 9007199254740993, i64::MAX, i64::MIN];

fn kv(k: &str, v: &str) -> opentelemetry_proto::tonic::common::v1::KeyValue {
    use opentelemetry_proto::tonic::common::v1::{any_value, AnyValue, KeyValue};
    KeyValue { key: k.to_string(), value: Some(AnyValue { value: Some(any_value::Value::StringValue(v.to_string())) }) }
}

pub fn build_otlp(req: &OReq) -> (opentelemetry_proto::tonic::collector::metrics::v1::ExportMetricsServiceRequest, Vec<(i64, String, BTreeMap<String, String>, OVal)>) {
    use opentelemetry_proto::tonic::collector::metrics::v1::ExportMetricsServiceRequest;
    use opentelemetry_proto::tonic::metrics::v1::{metric::Data, number_data_point, Gauge, Histogram, HistogramDataPoint, Metric, NumberDataPoint, ResourceMetrics, ScopeMetrics, Sum, Summary, SummaryDataPoint};
    use opentelemetry_proto::tonic::resource::v1::Resource;
    let mut expected = Vec::new();
    let mut rms = Vec::new();
    for (rattrs, points) in &req.resources {
        let mut rl: BTreeMap<String, String> = BTreeMap::new();
        for (k, v) in rattrs {
            rl.insert(format!("res_{}", LNAMES[*k as usize % 3]), LVALS[*v as usize % LVALS.len()].to_string());
        }
        let mut metrics = Vec::new();
        for p in points {
            let mut pl = rl.clone();
            let mut attrs = Vec::new();
            let mut seen = std::collections::BTreeSet::new();
            for (k, v) in &p.attrs {
                // point attributes may shadow resource attributes (point wins)
                let key = if *k % 5 == 4 { format!("res_{}", LNAMES[0]) } else { LNAMES[*k as usize % LNAMES.len()].to_string() };
                if !seen.insert(key.clone()) {
                    continue;
                }
                let val = LVALS[*v as usize % LVALS.len()];
                pl.insert(key.clone(), val.to_string());
                attrs.push(kv(&key, val));
            }
            let name = PNAMES[p.name as usize % PNAMES.len()].to_string();
            let ts = OTS_BASE[req.ts_base as usize % OTS_BASE.len()] + OTS_OFF[p.ts as usize % OTS_OFF.len()];
            let dv = pvalue(p.value);
            let iv = OINTS[p.value as usize % OINTS.len()];
            let ndp = |val: number_data_point::Value| NumberDataPoint { attributes: attrs.clone(), start_time_unix_nano: 0, time_unix_nano: ts, exemplars: vec![], flags: 0, value: Some(val) };
            let (data, val) = match p.kind % 6 {
                0 => (Data::Gauge(Gauge { data_points: vec![ndp(number_data_point::Value::AsDouble(dv))] }), OVal::F(dv)),
                1 => (Data::Gauge(Gauge { data_points: vec![ndp(number_data_point::Value::AsInt(iv))] }), OVal::I(iv)),
                2 => (Data::Sum(Sum { data_points: vec![ndp(number_data_point::Value::AsDouble(dv))], aggregation_temporality: 2, is_monotonic: true }), OVal::F(dv)),
                3 => (Data::Sum(Sum { data_points: vec![ndp(number_data_point::Value::AsInt(iv))], aggregation_temporality: 2, is_monotonic: true }), OVal::I(iv)),
                4 => (
                    Data::Histogram(Histogram {
                        data_points: vec![HistogramDataPoint { attributes: attrs.clone(), start_time_unix_nano: 0, time_unix_nano: ts, count: 3, sum: Some(dv), bucket_counts: vec![1, 2], explicit_bounds: vec![1.0], exemplars: vec![], flags: 0, min: None, max: None }],
                        aggregation_temporality: 2,
                    }),
                    OVal::F(dv),
                ),
                _ => (Data::Summary(Summary { data_points: vec![SummaryDataPoint { attributes: attrs.clone(), start_time_unix_nano: 0, time_unix_nano: ts, count: 3, sum: dv, quantile_values: vec![], flags: 0 }] }), OVal::F(dv)),
            };
            metrics.push(Metric { name: name.clone(), description: String::new(), unit: String::new(), metadata: vec![], data: Some(data) });
            expected.push((ts as i64, name, pl, val));
        }
        rms.push(ResourceMetrics {
            resource: Some(Resource { attributes: rl.iter().map(|(k, v)| kv(k, v)).collect(), dropped_attributes_count: 0 }),
            scope_metrics: vec![ScopeMetrics { scope: None, metrics, schema_url: String::new() }],
            schema_url: String::new(),
        });
    }
    (ExportMetricsServiceRequest { resource_metrics: rms }, expected)
}

#[derive(Debug, Clone, PartialEq)]
pub enum OVal {
    F(f64),
    I(i64),
}

pub fn exec_otlp(req: &OReq) -> Outcome {
    let rt = rt_plain();
    rt.block_on(async {
        use opentelemetry_proto::tonic::collector::metrics::v1::metrics_service_server::MetricsService;
        let mut out = Outcome::pass();
        let r = receiver().await;
        let (msg, expected) = build_otlp(req);
        let svc = cardinalsin::api::grpc::OtlpGrpcService::new(r.ingester.clone());
        use futures::FutureExt;
        let res = std::panic::AssertUnwindSafe(svc.export(tonic::Request::new(msg))).catch_unwind().await;
        let huge_int = expected.iter().any(|e| matches!(e.3, OVal::I(i) if (i as f64) as i128 != i as i128));
        let tags = if huge_int { "int-point-beyond-2^53" } else { "plain" };
        let res = match res {
            Ok(r) => r,
            Err(_) => {
                let p = take_last_panic().unwrap_or_default();
                out.set_fail(format!("receiver-panic:{}", panic_site(&p)), p);
                return out;
            }
        };
        out.nontrivial = req.resources.len() >= 1 && expected.len() >= 2 && expected.iter().any(|e| !e.2.is_empty());
        if huge_int {
            out.class("int-point-beyond-2^53");
        }
        if expected.is_empty() {
            return out;
        }
        if let Err(st) = res {
            out.set_fail(format!("otlp:well-formed-request-refused:{}", tags), format!("{:?}", st));
            return out;
        }
        let batches = match stored_rows(&r).await {
            Ok(b) => b,
            Err(e) => {
                out.set_fail("stored-chunk-unreadable", e);
                return out;
            }
        };
        // numerically equal: an int point must be stored as a number equal to the integer
        let exp_f: Vec<(i64, String, BTreeMap<String, String>, f64)> = expected.iter().map(|(t, n, l, v)| (*t, n.clone(), l.clone(), match v { OVal::F(f) => *f, OVal::I(i) => *i as f64 })).collect();
        if let Err((sig, msg)) = compare(&batches, &exp_f, &["value_f64", "value_i64", "value_u64"]) {
            out.set_fail(format!("otlp:{}:{}", sig, tags), msg);
            return out;
        }
        // exactness for integer points: the stored real must equal the integer exactly
        if huge_int {
            out.set_fail("otlp:int-value-not-numerically-equal:int-point-beyond-2^53", "an integer data point beyond 2^53 was stored as a rounded double");
        }
        out
    })
}

// ---------------------------------------------------------------------------
// Flight DoPut frames (totality)
// ---------------------------------------------------------------------------

#[derive(Clone, Debug, Serialize, Deserialize)]
pub struct FlightCase {
    pub rows: u8,
    pub muts: Vec<Mut>,
    /// which frame and which part (header / body) is mutated
    pub frame: u8,
    pub part: u8,
    /// 0 = an ordinary metrics batch; 1 = a batch without columns; 2 = a single Null-typed
    /// column; 3 = a timestamp column plus a Null-typed column
    #[serde(default)]
    pub shape: u8,
    /// row count written into the record-batch header in place of the true one
    #[serde(default)]
    pub declared_rows: Option<u8>,
}

/// Row counts a hostile client may declare (columns without data buffers make any count "valid")
pub const DECLARED: [i64; 8] = [0, 1 << 20, 1 << 31, 1 << 40, 17_613_660_880_896, i64::MAX, -1, 500_001];
const MARK_ROWS: usize = 0x1357;

fn flight_frames(c: &FlightCase) -> Vec<arrow_flight::FlightData> {
    use arrow_array::{Int64Array, NullArray};
    use arrow_schema::{DataType, Field, Schema};
    let batch = match c.shape % 4 {
        0 => {
            let spec = crate::gen::BatchSpec { schema: 1, rows: (0..1 + c.rows % 4).map(|i| crate::gen::RowSpec { ts_step: i as u16, ts_jitter: 0, metric: i, labels: [Some(0), None, Some(1)], fval: Some(3), ival: None }).collect() };
            crate::gen::build_batch(&spec, 1_700_000_000_000_000_000, 0, None)
        }
        1 => RecordBatch::try_new_with_options(Arc::new(Schema::empty()), vec![], &arrow_array::RecordBatchOptions::new().with_row_count(Some(MARK_ROWS))).expect("batch"),
        2 => RecordBatch::try_new(Arc::new(Schema::new(vec![Field::new("n", DataType::Null, true)])), vec![Arc::new(NullArray::new(MARK_ROWS))]).expect("batch"),
        _ => RecordBatch::try_new(
            Arc::new(Schema::new(vec![Field::new("timestamp", DataType::Int64, false), Field::new("n", DataType::Null, true)])),
            vec![Arc::new(Int64Array::from((0..MARK_ROWS as i64).map(|k| 1_700_000_000_000_000_000 + k).collect::<Vec<_>>())), Arc::new(NullArray::new(MARK_ROWS))],
        )
        .expect("batch"),
    };
    let mut frames = cardinalsin::api::ingest::flight_ingest::batch_to_flight_data(&batch).expect("encode");
    if let (Some(d), true) = (c.declared_rows, c.shape % 4 != 0) {
        let want = DECLARED[d as usize % DECLARED.len()].to_le_bytes();
        let mark = (MARK_ROWS as i64).to_le_bytes();
        for f in frames.iter_mut().skip(1) {
            let mut h = f.data_header.to_vec();
            let mut k = 0;
            while k + 8 <= h.len() {
                if h[k..k + 8] == mark {
                    h[k..k + 8].copy_from_slice(&want);
                    k += 8;
                } else {
                    k += 1;
                }
            }
            f.data_header = Bytes::from(h);
        }
    }
    if !frames.is_empty() {
        let fi = c.frame as usize % frames.len();
        let f = &mut frames[fi];
        if c.part % 2 == 0 {
            f.data_header = Bytes::from(apply_muts(f.data_header.to_vec(), &c.muts));
        } else {
            f.data_body = Bytes::from(apply_muts(f.data_body.to_vec(), &c.muts));
        }
    }
    frames
}

/// The frames go to `FlightIngestService::process_stream` on a thread with the stack of a tokio
/// worker, inside a forked child: a stack overflow or abort is a failure of the case.
pub fn exec_flight(c: &FlightCase) -> Outcome {
    let c = c.clone();
    isolated("flight", move || {
        let frames = flight_frames(&c);
        let mutated = !c.muts.iter().all(|m| matches!(m, Mut::None));
        let hostile_rows = c.shape % 4 != 0 && c.declared_rows.is_some();
        let shape = c.shape % 4;
        let res = on_worker_stack(move || {
            let rt = rt_plain();
            rt.block_on(async {
                let mut out = Outcome::pass();
                let r = receiver().await;
                let svc = cardinalsin::api::ingest::flight_ingest::FlightIngestService::new(r.ingester.clone());
                use futures::FutureExt;
                let fut = std::panic::AssertUnwindSafe(svc.process_stream(frames.into_iter())).catch_unwind();
                match PollBudget::new(fut, 5000).await {
                    None => out.set_fail("flight:receiver-hang", "process_stream did not answer within 5000 polls"),
                    Some(Err(_)) => {
                        let p = take_last_panic().unwrap_or_default();
                        out.set_fail(format!("flight:receiver-panic:{}", panic_site(&p)), p.chars().take(200).collect::<String>());
                    }
                    Some(Ok(r)) => out.class(if r.is_ok() { "accepted" } else { "rejected" }),
                }
                out
            })
        });
        let mut out = match res {
            Ok(o) => o,
            Err(_) => Outcome::fail("flight:receiver-panic:outside-catch", take_last_panic().unwrap_or_default()),
        };
        out.nontrivial = mutated || hostile_rows;
        out.class(["shape:metrics-batch", "shape:no-columns", "shape:null-column-only", "shape:timestamp+null-column"][shape as usize]);
        if hostile_rows {
            out.class("declared-row-count-rewritten");
        }
        out
    })
}

// ---------------------------------------------------------------------------
// generators
// ---------------------------------------------------------------------------

pub fn preq(colliding: bool) -> impl Strategy<Value = PReq> {
    (prop::collection::vec((0u8..4, prop::collection::vec((0u8..9, 0u8..6), 0..4), prop::collection::vec((0u8..7, 0u8..16), 0..5), prop_oneof![2 => Just(0u8), 1 => any::<u8>()]).prop_map(|(name, labels, samples, name_pos)| PSeries { name, labels, samples, name_pos }), 1..6), 0u8..4, 0u8..6).prop_map(move |(series, enc, ts_base)| PReq { series, enc, colliding_labels: colliding, ts_base })
}

fn mutation() -> impl Strategy<Value = Mut> {
    prop_oneof![2 => any::<u16>().prop_map(Mut::Truncate), 3 => (any::<u16>(), any::<u8>()).prop_map(|(k, b)| Mut::Flip(k, b)), 2 => (any::<u16>(), prop::collection::vec(any::<u8>(), 1..6)).prop_map(|(k, b)| Mut::Splice(k, b)), 4 => (any::<u16>(), 0u8..8).prop_map(|(k, h)| Mut::HostileLen(k, h)), 1 => Just(Mut::None)]
}

pub fn def() -> PropDef {
    PropDef {
        id: "C17",
        level: "exploration",
        rule: "prom-fidelity: generated remote-write requests (1-5 series, 4 metric names, 0-3 labels from overlapping / disjoint sets incl. empty and non-ASCII values, the __name__ label at any position among them, 0-4 samples, values from {0, +-1, 0.5, -2.25, 1e300, 2^53, 2^53+1, -2^53, +-2^63, 2^64, NaN, +-inf, 42}, ms timestamps of either sign up to +-9e12, one request spanning <= 2 days) -> own protobuf encoder (canonical, samples before labels, unknown fields, non-minimal varints) -> snappy -> the public handle_remote_write with flush_row_count=1 -> decoded chunks; every sample must be exactly one row with ts*10^6, name, complete label set, exactly one typed value column set and numerically equal as a real (NaN = NaN); labels colliding with built-in column names as a separate sub-check. otlp: generated ExportMetricsServiceRequest (gauge / sum with int and double points, histogram, summary, resource + point attributes incl. shadowing) through OtlpGrpcService::export. prom-bytes / flight: mutated valid encodings (truncate, bit flip, splice, length varints rewritten to 0, 2^32, 2^63, 2^64-1, ...) and raw bytes through the public handlers under catch_unwind and a poll budget. Non-trivial: fidelity = >=2 series with different label sets and both an integral and a fractional value; bytes = the body got past snappy.",
        assumptions: &["labels with an empty value may be stored as absent or as empty", "label names unique per series, every series has __name__", "overflow checks off (release semantics): arithmetic overflow is not a panic"],
        subs: || {
            vec![
                Box::new(Sub::<PReq> { name: "prom-fidelity", cases: |t| t.scale(6_000, 8), strategy: |_| preq(false).boxed(), exec: exec_prom_fidelity }),
                Box::new(Sub::<PReq> { name: "prom-colliding-labels", cases: |t| t.scale(500, 10), strategy: |_| preq(true).boxed(), exec: exec_prom_fidelity }),
                Box::new(Sub::<BytesCase> {
                    name: "prom-bytes",
                    cases: |t| t.scale(20_000, 10),
                    strategy: |_| (preq(false), prop::collection::vec(mutation(), 1..4), 0u8..3, prop::collection::vec(any::<u8>(), 0..64)).prop_map(|(base, muts, mode, raw)| BytesCase { base, muts, mode, raw }).boxed(),
                    exec: exec_prom_bytes,
                }),
                Box::new(Sub::<OReq> {
                    name: "otlp",
                    cases: |t| t.scale(5_000, 8),
                    strategy: |_| (prop::collection::vec((prop::collection::vec((0u8..3, 0u8..6), 0..3), prop::collection::vec((0u8..6, 0u8..4, 0u8..5, 0u8..16, prop::collection::vec((0u8..10, 0u8..6), 0..3)).prop_map(|(kind, name, ts, value, attrs)| OPoint { kind, name, ts, value, attrs }), 0..4)), 1..3), 0u8..4).prop_map(|(resources, ts_base)| OReq { resources, ts_base }).boxed(),
                    exec: exec_otlp,
                }),
                Box::new(Sub::<FlightCase> { name: "flight", cases: |t| t.scale(5_000, 10), strategy: |_| (0u8..4, prop::collection::vec(mutation(), 1..4), any::<u8>(), any::<u8>(), prop_oneof![3 => Just(0u8), 2 => 1u8..4], prop::option::weighted(0.7, 0u8..8)).prop_map(|(rows, muts, frame, part, shape, declared_rows)| FlightCase { rows, muts: if shape != 0 && declared_rows.is_some() && frame % 2 == 0 { vec![Mut::None] } else { muts }, frame, part, shape, declared_rows }).boxed(), exec: exec_flight }),
            ]
        },
    }
}
