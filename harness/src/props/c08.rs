//! C08 — compaction leases are exclusive while live and reclaimable once expired.
//!
//! Time: the lease code reads the wall clock.  "Δ seconds pass" is modelled by
//! moving every stored lease instant Δ seconds into the past (SimStore surgery
//! with an ETag bump so in-flight read-modify-writes restart; a feature-gated
//! method for LocalMetadataClient).  All oracle comparisons leave a ±3 s
//! ambiguity window around expiry so real elapsed milliseconds cannot flip a verdict.

use crate::core::*;
use crate::sim::*;
use crate::util::*;
use cardinalsin::metadata::{CompactionLeases, LeaseStatus, LocalMetadataClient, MetadataClient, ObjectStoreMetadataClient, ObjectStoreMetadataConfig};
use chrono::{DateTime, Duration, Utc};
use proptest::prelude::*;
use serde::{Deserialize, Serialize};
use std::collections::{BTreeMap, BTreeSet};
use std::sync::Arc;

const DELTAS: [i64; 5] = [17, 101, 293, 331, 607];
const AMBIG_S: i64 = 3;
const CLOCK_NODE: u32 = 50;

#[derive(Clone, Debug, Serialize, Deserialize)]
pub enum Op {
    Acquire { chunks: Vec<u8> },
    Renew(u8),
    Complete(u8),
    Fail(u8),
    Scavenge,
    Load,
}

#[derive(Clone, Debug, Serialize, Deserialize)]
pub struct Case {
    pub clients: Vec<Vec<Op>>,
    pub clock: Vec<u8>,
    pub schedule: Vec<u16>,
    pub victim: Option<u8>,
}

fn chunk_name(c: u8) -> String {
    format!("chunk-{}", c % 5)
}
fn chunk_set(cs: &[u8]) -> Vec<String> {
    let s: BTreeSet<String> = cs.iter().map(|c| chunk_name(*c)).collect();
    s.into_iter().collect()
}

#[derive(Clone, Debug, PartialEq)]
pub struct L {
    holder: String,
    chunks: BTreeSet<String>,
    expires: DateTime<Utc>,
    active: bool,
    status: String,
}
pub type Snap = BTreeMap<String, L>;

pub fn snap_of(ls: &CompactionLeases) -> Snap {
    ls.leases
        .iter()
        .map(|(id, l)| {
            (
                id.clone(),
                L { holder: l.holder_id.clone(), chunks: l.chunks.iter().cloned().collect(), expires: l.expires_at, active: l.status == LeaseStatus::Active, status: format!("{:?}", l.status) },
            )
        })
        .collect()
}

fn parse_snap(data: &[u8]) -> Result<Snap, String> {
    serde_json::from_slice::<CompactionLeases>(data).map(|l| snap_of(&l)).map_err(|e| e.to_string())
}

fn def_live(l: &L, w: DateTime<Utc>) -> bool {
    l.active && l.expires > w + Duration::seconds(AMBIG_S)
}
fn def_dead(l: &L, w: DateTime<Utc>) -> bool {
    !l.active || l.expires < w - Duration::seconds(AMBIG_S)
}

/// (E): live active leases pairwise disjoint
pub fn exclusive(s: &Snap, w: DateTime<Utc>) -> Result<(), String> {
    let live: Vec<(&String, &L)> = s.iter().filter(|(_, l)| def_live(l, w)).collect();
    for i in 0..live.len() {
        for j in i + 1..live.len() {
            let common: Vec<&String> = live[i].1.chunks.intersection(&live[j].1.chunks).collect();
            if !common.is_empty() {
                return Err(format!("leases {} (holder {}) and {} (holder {}) are both active and unexpired and share {:?}", live[i].0, live[i].1.holder, live[j].0, live[j].1.holder, common));
            }
        }
    }
    Ok(())
}

#[derive(Clone, Debug)]
pub enum Res {
    OkLease(String),
    Ok,
    OkN(usize),
    ErrLeased,
    ErrRetries,
    ErrOther(String),
    Skipped,
}

#[derive(Clone, Debug)]
pub enum XOp {
    Acquire { holder: String, chunks: Vec<String> },
    Renew(String),
    Complete(String),
    Fail(String),
    Scavenge,
    Load,
}

type V = Result<(), (String, String)>;
fn bad(sig: &str, msg: String) -> V {
    Err((sig.to_string(), msg))
}

fn unchanged_except(prev: &Snap, next: &Snap, except: &[&String], w: DateTime<Utc>, what: &str, may_drop_expired: bool, may_drop_terminal: bool) -> V {
    for (id, l) in prev {
        if except.contains(&id) {
            continue;
        }
        match next.get(id) {
            Some(n) => {
                if n != l {
                    return bad("foreign-lease-modified", format!("{} changed lease {} which it does not own: {:?} -> {:?}", what, id, l, n));
                }
            }
            None => {
                if def_live(l, w) {
                    return bad("live-lease-dropped", format!("{} removed lease {} (holder {}) although it is active and unexpired", what, id, l.holder));
                }
                let expired_active = l.active && !def_live(l, w);
                if !((may_drop_expired && expired_active) || (may_drop_terminal && !l.active)) {
                    return bad("lease-dropped-unexpectedly", format!("{} removed lease {} ({:?})", what, id, l));
                }
            }
        }
    }
    for id in next.keys() {
        if !prev.contains_key(id) && !except.contains(&id) {
            return bad("lease-invented", format!("{} made lease {} appear", what, id));
        }
    }
    Ok(())
}

/// Judge one operation given the snapshot it read (`prev`), the snapshot it
/// committed (`next`, None = nothing written), its result and the wall time.
pub fn check_transition(prev: &Snap, next: Option<&Snap>, op: &XOp, res: &Res, w: DateTime<Utc>) -> V {
    let what = format!("{:?} -> {:?}", op, res);
    let is_err = matches!(res, Res::ErrLeased | Res::ErrRetries | Res::ErrOther(_));
    if is_err {
        if let Some(n) = next {
            // a failed call may at most have dropped expired / terminal leases
            unchanged_except(prev, n, &[], w, &what, true, true)?;
        }
    }
    match (op, res) {
        (_, Res::Skipped) | (XOp::Load, _) => Ok(()),
        (XOp::Acquire { holder, chunks }, Res::OkLease(id)) => {
            let next = match next {
                Some(n) => n,
                None => return bad("success-without-effect", format!("{} but nothing was written", what)),
            };
            let want: BTreeSet<String> = chunks.iter().cloned().collect();
            for (pid, l) in prev {
                if def_live(l, w) && l.chunks.intersection(&want).next().is_some() {
                    return bad("acquired-over-live-lease", format!("{} although lease {} of {} is active, unexpired (expires {}) and overlaps", what, pid, l.holder, l.expires));
                }
            }
            match next.get(id) {
                Some(n) => {
                    let exp_ok = (n.expires - (w + Duration::seconds(300))).num_seconds().abs() <= AMBIG_S;
                    if n.holder != *holder || n.chunks != want || !n.active || !exp_ok {
                        return bad("new-lease-wrong", format!("{}: stored lease {:?} (now {})", what, n, w));
                    }
                }
                None => return bad("new-lease-missing", format!("{}: lease not in the committed file", what)),
            }
            unchanged_except(prev, next, &[id], w, &what, true, false)
        }
        (XOp::Acquire { chunks, .. }, Res::ErrLeased) => {
            let want: BTreeSet<String> = chunks.iter().cloned().collect();
            let justified = prev.values().any(|l| !def_dead(l, w) && l.chunks.intersection(&want).next().is_some());
            if !justified {
                return bad("refused-without-live-conflict", format!("{} although no active unexpired lease overlaps (file: {:?}, now {})", what, prev, w));
            }
            Ok(())
        }
        (XOp::Renew(id), Res::Ok) => {
            match prev.get(id) {
                Some(l) if l.active => {}
                other => return bad("renew-succeeded-without-active-lease", format!("{} although the lease was {:?} in the file it read", what, other)),
            }
            let next = match next {
                Some(n) => n,
                None => return bad("success-without-effect", format!("{} but nothing was written", what)),
            };
            match next.get(id) {
                Some(n) if n.active && (n.expires - (w + Duration::seconds(300))).num_seconds().abs() <= AMBIG_S => {}
                other => return bad("renewed-lease-wrong", format!("{}: stored {:?} (now {})", what, other, w)),
            }
            unchanged_except(prev, next, &[id], w, &what, false, false)
        }
        (XOp::Complete(id), Res::Ok) | (XOp::Fail(id), Res::Ok) => {
            if !prev.contains_key(id) {
                if next.is_some() {
                    return bad("noop-with-effect", format!("{} on an unknown lease changed the file", what));
                }
                return Ok(());
            }
            let next = match next {
                Some(n) => n,
                None => return bad("success-without-effect", format!("{} but nothing was written", what)),
            };
            let want = if matches!(op, XOp::Complete(_)) { "Completed" } else { "Failed" };
            match next.get(id) {
                Some(n) if n.status == want => {}
                other => return bad("terminal-status-wrong", format!("{}: stored {:?}", what, other)),
            }
            unchanged_except(prev, next, &[id], w, &what, false, false)
        }
        (XOp::Scavenge, Res::OkN(_)) => {
            // The number a scavenge reports is not part of the property (it says nothing about it): only
            // what the scavenge did to the lease set is judged.
            match next {
                Some(nx) => unchanged_except(prev, nx, &[], w, &what, true, true),
                None => Ok(()),
            }
        }
        (_, Res::ErrLeased) => bad("unexpected-error-kind", what),
        (_, Res::ErrRetries) | (_, Res::ErrOther(_)) => Ok(()),
        _ => bad("unexpected-result-shape", what),
    }
}

fn classify_err(e: &cardinalsin::Error) -> Res {
    match e {
        cardinalsin::Error::ChunksAlreadyLeased(_) => Res::ErrLeased,
        cardinalsin::Error::TooManyRetries => Res::ErrRetries,
        other => Res::ErrOther(format!("{:?}", other)),
    }
}

async fn do_op(client: &dyn MetadataClient, holder: &str, mine: &mut Vec<String>, op: &Op) -> (XOp, Res) {
    let pick = |k: u8, mine: &Vec<String>| -> Option<String> {
        if mine.is_empty() {
            None
        } else {
            Some(mine[k as usize % mine.len()].clone())
        }
    };
    match op {
        Op::Acquire { chunks } => {
            let cs = chunk_set(chunks);
            let r = client.acquire_lease(holder, &cs, 0).await;
            let res = match r {
                Ok(l) => {
                    mine.push(l.lease_id.clone());
                    Res::OkLease(l.lease_id)
                }
                Err(e) => classify_err(&e),
            };
            (XOp::Acquire { holder: holder.to_string(), chunks: cs }, res)
        }
        Op::Renew(k) => match pick(*k, mine) {
            None => (XOp::Load, Res::Skipped),
            Some(id) => {
                let r = client.renew_lease(&id).await;
                (XOp::Renew(id), r.map(|_| Res::Ok).unwrap_or_else(|e| classify_err(&e)))
            }
        },
        Op::Complete(k) => match pick(*k, mine) {
            None => (XOp::Load, Res::Skipped),
            Some(id) => {
                let r = client.complete_lease(&id).await;
                (XOp::Complete(id), r.map(|_| Res::Ok).unwrap_or_else(|e| classify_err(&e)))
            }
        },
        Op::Fail(k) => match pick(*k, mine) {
            None => (XOp::Load, Res::Skipped),
            Some(id) => {
                let r = client.fail_lease(&id).await;
                (XOp::Fail(id), r.map(|_| Res::Ok).unwrap_or_else(|e| classify_err(&e)))
            }
        },
        Op::Scavenge => {
            let r = client.scavenge_leases().await;
            (XOp::Scavenge, r.map(Res::OkN).unwrap_or_else(|e| classify_err(&e)))
        }
        Op::Load => {
            let _ = client.load_leases().await;
            (XOp::Load, Res::Ok)
        }
    }
}

#[derive(Clone, Debug)]
struct OpRec {
    client: usize,
    idx: usize,
    xop: XOp,
    res: Res,
    from: u64,
    to: u64,
}

fn shift_lease_bytes(data: &[u8], secs: i64) -> Option<Vec<u8>> {
    let mut ls: CompactionLeases = serde_json::from_slice(data).ok()?;
    let d = Duration::seconds(secs);
    for l in ls.leases.values_mut() {
        l.acquired_at -= d;
        l.expires_at -= d;
    }
    serde_json::to_vec_pretty(&ls).ok()
}

pub fn exec_s3(case: &Case) -> Outcome {
    let rt = rt_paused();
    rt.block_on(async {
        let core = SimCore::new();
        let mut out = Outcome::pass();
        core.set_scheduled(true);
        let recs: Arc<parking_lot::Mutex<Vec<OpRec>>> = Arc::new(parking_lot::Mutex::new(Vec::new()));
        let mut handles = Vec::new();
        for (ci, ops) in case.clients.iter().enumerate() {
            let client = ObjectStoreMetadataClient::new(core.node(ci as u32), ObjectStoreMetadataConfig::default());
            let ops = ops.clone();
            let core2 = core.clone();
            let recs = recs.clone();
            handles.push(tokio::spawn(async move {
                let holder = format!("node-{}", ci);
                let mut mine = Vec::new();
                for (idx, op) in ops.iter().enumerate() {
                    let from = core2.log_len() as u64;
                    let (xop, res) = do_op(&client, &holder, &mut mine, op).await;
                    let to = core2.log_len() as u64;
                    recs.lock().push(OpRec { client: ci, idx, xop, res, from, to });
                }
            }));
        }
        // the clock: each advance is a schedulable event
        {
            let core2 = core.clone();
            let clock = case.clock.clone();
            handles.push(tokio::spawn(async move {
                for d in clock {
                    let secs = DELTAS[d as usize % DELTAS.len()];
                    let c3 = core2.clone();
                    let _ = core2
                        .gated(ReqDesc { node: CLOCK_NODE, op: OpKind::Pause, path: "clock".into(), detail: format!("advance:{}", secs) }, move || async move {
                            c3.add_shift(secs);
                            if let Some(p) = c3.find_path("compaction-leases.json") {
                                c3.surgery(&p, |b| shift_lease_bytes(b, secs));
                            }
                        })
                        .await;
                }
            }));
        }
        let victim = case.victim.map(|v| (v as usize % case.clients.len()) as u32).map(|v| (v, v as usize));
        let run = drive_schedule(&core, &handles, &case.schedule, victim, 6000).await;
        out.count("requests_scheduled", run.scheduled);
        if run.end != DriveEnd::Done {
            handles.iter().for_each(|h| h.abort());
            out.set_fail("did-not-finish", format!("clients did not finish: {:?}", run.end));
            return out;
        }
        for h in handles {
            if let Err(e) = h.await {
                if e.is_panic() {
                    out.set_fail("client-panic", format!("panic: {}", take_last_panic().unwrap_or_default()));
                    return out;
                }
            }
        }
        core.set_scheduled(false);
        let recs = recs.lock().clone();
        let log = core.log();
        let versions = core.versions_of("compaction-leases.json");
        // (E) every version
        let mut snaps: Vec<(u64, Snap)> = Vec::new();
        for v in &versions {
            let s = match parse_snap(&v.data) {
                Ok(s) => s,
                Err(e) => {
                    out.set_fail("unparsable-lease-version", format!("lease file version etag {}: {}", v.etag, e));
                    return out;
                }
            };
            if let Err(m) = exclusive(&s, v.wall) {
                out.set_fail("two-live-leases-share-a-chunk", format!("lease file version etag {} (written by node {}): {}", v.etag, v.node, m));
                return out;
            }
            if v.node != HARNESS_NODE && !v.conditional {
                out.set_fail("unconditional-lease-write", format!("lease file version etag {} written unconditionally", v.etag));
                return out;
            }
            snaps.push((v.effect_seq, s));
        }
        // A DELETE of the lease file is a commit too: it replaces whatever version was current by
        // "no leases" (a missing file reads as the empty set).  It is judged like any other commit,
        // against the version it replaced - removing the file is fine if nothing live is lost.
        struct Commit {
            node: u32,
            req_id: u64,
            effect_seq: u64,
            wall: DateTime<Utc>,
        }
        let mut commits: Vec<Commit> = versions.iter().map(|v| Commit { node: v.node, req_id: v.req_id, effect_seq: v.effect_seq, wall: v.wall }).collect();
        for d in core.deletes() {
            if d.path.ends_with("compaction-leases.json") && d.existed {
                out.class("lease-file-deleted");
                commits.push(Commit { node: d.node, req_id: d.req_id, effect_seq: d.effect_seq, wall: d.wall });
                snaps.push((d.effect_seq, Snap::new()));
            }
        }
        commits.sort_by_key(|c| c.effect_seq);
        snaps.sort_by_key(|(e, _)| *e);
        let empty = Snap::new();
        let mut reclaim = false;
        let mut overlap_inflight = false;
        for r in &recs {
            // version read = latest version with effect_seq <= seen_seq of the op's last GET on the lease file
            let gets: Vec<&ReqLog> = log.iter().filter(|l| l.id >= r.from && l.id < r.to && l.desc.node as usize == r.client && l.desc.op == OpKind::Get && l.desc.path.ends_with("compaction-leases.json")).collect();
            let (prev, w_read) = match gets.last() {
                Some(g) => (snaps.iter().rev().find(|(e, _)| *e <= g.seen_seq).map(|(_, s)| s).unwrap_or(&empty), g.wall),
                None => (&empty, Utc::now()),
            };
            let committed: Vec<&Commit> = commits.iter().filter(|v| v.node as usize == r.client && v.req_id >= r.from && v.req_id < r.to).collect();
            if committed.len() > 1 {
                out.set_fail("more-than-one-commit", format!("client {} op {} committed {} versions", r.client, r.idx, committed.len()));
                return out;
            }
            let next = committed.first().map(|v| snaps.iter().find(|(e, _)| *e == v.effect_seq).map(|(_, s)| s).unwrap());
            let w = committed.first().map(|v| v.wall).unwrap_or(w_read);
            // a committed version is judged against the version it actually replaced (its immediate
            // predecessor in the file's history), not against what the client believes it read: a
            // write-back of stale content must show up as foreign leases changed / dropped
            let prev = match committed.first() {
                Some(v) => snaps.iter().rev().find(|(e, _)| *e < v.effect_seq).map(|(_, s)| s).unwrap_or(&empty),
                None => prev,
            };
            if let Err((sig, msg)) = check_transition(prev, next, &r.xop, &r.res, w) {
                out.set_fail(sig, format!("client {} op {}: {}", r.client, r.idx, msg));
                return out;
            }
            if let (XOp::Acquire { chunks, .. }, Res::OkLease(_)) = (&r.xop, &r.res) {
                let want: BTreeSet<String> = chunks.iter().cloned().collect();
                if prev.values().any(|l| l.active && l.chunks.intersection(&want).next().is_some()) {
                    reclaim = true;
                }
            }
        }
        // two lease ops of different clients in flight at once over overlapping chunk sets
        for a in &recs {
            for b in &recs {
                if a.client < b.client && a.from < b.to && b.from < a.to {
                    if let (XOp::Acquire { chunks: ca, .. }, XOp::Acquire { chunks: cb, .. }) = (&a.xop, &b.xop) {
                        if ca.iter().any(|c| cb.contains(c)) {
                            overlap_inflight = true;
                        }
                    }
                }
            }
        }
        if reclaim {
            out.class("reclaim-of-expired-lease");
        }
        if overlap_inflight {
            out.class("overlapping-acquires-in-flight");
        }
        if recs.iter().any(|r| matches!(r.res, Res::ErrRetries)) {
            out.class("retry-exhaustion");
        }
        if recs.iter().any(|r| matches!(r.res, Res::ErrLeased)) {
            out.class("refused-leased");
        }
        if recs.iter().any(|r| matches!((&r.xop, &r.res), (XOp::Renew(_), Res::ErrOther(_)))) {
            out.class("renew-refused");
        }
        if log.iter().any(|l| l.outcome == "err:exists") {
            out.class("first-write-race");
        }
        out.nontrivial = reclaim || overlap_inflight;
        // final read
        let fresh = ObjectStoreMetadataClient::new(core.node(98), ObjectStoreMetadataConfig::default());
        if let Ok(fin) = fresh.load_leases().await {
            let f = snap_of(&fin);
            let last = snaps.last().map(|(_, s)| s).unwrap_or(&empty);
            if &f != last {
                out.set_fail("final-read-not-last-version", format!("fresh load_leases {:?} vs last version {:?}", f, last));
            }
        }
        out
    })
}

// ---- LocalMetadataClient: sequential histories -------------------------------

#[derive(Clone, Debug, Serialize, Deserialize)]
pub enum LOp {
    Do { node: u8, op: Op },
    Advance(u8),
}
#[derive(Clone, Debug, Serialize, Deserialize)]
pub struct LocalCase {
    pub ops: Vec<LOp>,
}

pub fn exec_local(case: &LocalCase) -> Outcome {
    let rt = rt_plain();
    rt.block_on(async {
        let client = LocalMetadataClient::new();
        let mut out = Outcome::pass();
        let mut mine: BTreeMap<u8, Vec<String>> = BTreeMap::new();
        let mut reclaim = false;
        for (i, lop) in case.ops.iter().enumerate() {
            match lop {
                LOp::Advance(d) => client.verif_shift_lease_times(DELTAS[*d as usize % DELTAS.len()]),
                LOp::Do { node, op } => {
                    let node = node % 3;
                    let prev = snap_of(&client.load_leases().await.unwrap());
                    let w = Utc::now();
                    if let Err(m) = exclusive(&prev, w) {
                        out.set_fail("two-live-leases-share-a-chunk", format!("before op {}: {}", i, m));
                        return out;
                    }
                    let holder = format!("node-{}", node);
                    let (xop, res) = do_op(&client, &holder, mine.entry(node).or_default(), op).await;
                    let after = snap_of(&client.load_leases().await.unwrap());
                    // no versions here: "committed" = the state after the call, for calls that
                    // may legitimately leave the state as it was the comparison is by value
                    let changed = after != prev;
                    let next = match (&xop, &res) {
                        (XOp::Complete(id), Res::Ok) | (XOp::Fail(id), Res::Ok) if prev.contains_key(id) => Some(&after),
                        (XOp::Renew(_), Res::Ok) | (XOp::Acquire { .. }, Res::OkLease(_)) => Some(&after),
                        _ => {
                            if changed {
                                Some(&after)
                            } else {
                                None
                            }
                        }
                    };
                    if let (XOp::Acquire { chunks, .. }, Res::OkLease(_)) = (&xop, &res) {
                        let want: BTreeSet<String> = chunks.iter().cloned().collect();
                        if prev.values().any(|l| l.active && l.chunks.intersection(&want).next().is_some()) {
                            reclaim = true;
                        }
                    }
                    if let Err((sig, msg)) = check_transition(&prev, next, &xop, &res, w) {
                        out.set_fail(format!("local:{}", sig), format!("op {}: {}", i, msg));
                        return out;
                    }
                    if let Err(m) = exclusive(&after, w) {
                        out.set_fail("two-live-leases-share-a-chunk", format!("after op {}: {}", i, m));
                        return out;
                    }
                }
            }
        }
        out.nontrivial = reclaim;
        if reclaim {
            out.class("reclaim-of-expired-lease");
        }
        out
    })
}

fn op() -> impl Strategy<Value = Op> {
    prop_oneof![
        6 => prop::collection::vec(0u8..5, 1..4).prop_map(|chunks| Op::Acquire { chunks }),
        3 => any::<u8>().prop_map(Op::Renew),
        2 => any::<u8>().prop_map(Op::Complete),
        1 => any::<u8>().prop_map(Op::Fail),
        1 => Just(Op::Scavenge),
        1 => Just(Op::Load),
    ]
}

fn strategy_s3(t: Tier) -> BoxedStrategy<Case> {
    let maxc = t.pick(4usize, 5usize);
    (
        prop::collection::vec(prop::collection::vec(op(), 1..6), 2..=maxc),
        prop::collection::vec(0u8..5, 0..4),
        prop::collection::vec(any::<u16>(), 0..120),
        prop_oneof![3 => Just(None), 1 => (0u8..6).prop_map(Some)],
    )
        .prop_map(|(clients, clock, schedule, victim)| Case { clients, clock, schedule, victim })
        .boxed()
}

fn strategy_local(_t: Tier) -> BoxedStrategy<LocalCase> {
    prop::collection::vec(prop_oneof![5 => (0u8..3, op()).prop_map(|(node, op)| LOp::Do { node, op }), 1 => (0u8..5).prop_map(LOp::Advance)], 1..24).prop_map(|ops| LocalCase { ops }).boxed()
}

pub fn def() -> PropDef {
    PropDef {
        id: "C08",
        level: "exploration",
        rule: "s3: 2-4 (thorough 5) ObjectStoreMetadataClients each issuing 1-5 ops from {acquire(subset of 5 chunks), renew, complete, fail, scavenge, load} plus 0-3 clock advances from {17,101,293,331,607}s, all interleaved at object-store-request granularity (schedule + victim bias); every op is judged against the lease-file version it read and the version it committed, and every version ever written is checked for exclusivity. local: sequential histories on LocalMetadataClient with the same transition oracle. Non-trivial = two acquires over overlapping chunk sets were in flight at once, or an acquire reclaimed chunks of a previously active lease.",
        assumptions: &[
            "moving every stored lease instant D seconds into the past is observationally equivalent to D seconds passing (the code only compares stored instants with now); in-flight read-modify-writes are forced to restart across a shift (ETag bump)",
            "+-3 s ambiguity window around expiry: verdicts never depend on real elapsed milliseconds",
            "all nodes read the same clock",
        ],
        subs: || {
            vec![
                Box::new(Sub::<Case> { name: "s3-race", cases: |t| t.scale(300_000, 6), strategy: strategy_s3, exec: exec_s3 }),
                Box::new(Sub::<LocalCase> { name: "local-seq", cases: |t| t.scale(150_000, 4), strategy: strategy_local, exec: exec_local }),
            ]
        },
    }
}
