//! C02 — catalog mutations are atomic and never lost under concurrency.
//!
//! 2–6 `ObjectStoreMetadataClient`s on one `SimStore`, every object-store
//! request a scheduling point.  Oracle: (a) linearisation witness — replaying
//! the successful ops in the commit order of their conditional PUTs on a
//! reference map yields the final catalog; (b) failed ops committed nothing,
//! successful ops exactly one version; (c) every version of catalog.json ever
//! written has a consistent chunk map / time index; (d) read-your-writes.

use crate::core::*;
use crate::sim::*;
use crate::util::*;
use cardinalsin::ingester::ChunkMetadata;
use cardinalsin::metadata::{MetadataCatalog, MetadataClient, ObjectStoreMetadataClient, ObjectStoreMetadataConfig};
use proptest::prelude::*;
use serde::{Deserialize, Serialize};
use std::collections::BTreeMap;
use std::sync::Arc;

pub const HOUR: i64 = 3_600_000_000_000;

#[derive(Clone, Debug, Serialize, Deserialize)]
pub enum Op {
    Register { path: u8, lo_h: i8, off: u8, span_h: u8 },
    Delete { path: u8 },
    Compact { sources: Vec<u8>, target: u8 },
    /// publish_compaction: the sources are replaced by a new chunk (fresh path) in one step
    Publish { sources: Vec<u8>, lo_h: i8, off: u8, span_h: u8 },
}

#[derive(Clone, Debug, Serialize, Deserialize)]
pub struct Case {
    pub clients: Vec<Vec<Op>>,
    pub schedule: Vec<u16>,
    /// client that is systematically overtaken between its GET and its PUT
    pub victim: Option<u8>,
    /// chunks registered (sequentially, by a set-up client) before the race
    pub initial: Vec<(u8, i8)>,
    /// per client: how many catalog reads (list_chunks / get_chunks) a second task issues through
    /// the *same* client object while its mutations run
    #[serde(default)]
    pub readers: Vec<u8>,
    /// the answer of a catalog GET reaches its caller as a separate schedulable event
    #[serde(default)]
    pub late_responses: bool,
    /// the race starts from the legacy two-file layout (chunks/metadata.json + time-index.json, no
    /// catalog.json yet): the first load of every client goes through the fall-back path and the
    /// first write creates the catalog
    #[serde(default)]
    pub legacy_start: bool,
    /// how many writes of other clients overtake the victim between its read and its write (0 = 1)
    #[serde(default)]
    pub overtakes: u8,
}

const NPATHS: u8 = 8;

pub fn path_name(p: u8) -> String {
    format!("t/data/c{}.parquet", p % NPATHS)
}

fn meta_for(path: u8, lo_h: i8, off: u8, span_h: u8) -> ChunkMetadata {
    let min = lo_h as i64 * HOUR + off as i64;
    let max = min + (span_h % 3) as i64 * HOUR + (off as i64 % 7);
    ChunkMetadata { path: path_name(path), min_timestamp: min, max_timestamp: max, row_count: 1 + off as u64, size_bytes: 100 + lo_h.unsigned_abs() as u64 }
}

#[derive(Clone, Debug, PartialEq)]
struct MChunk {
    min: i64,
    max: i64,
    rows: u64,
    size: u64,
    level: u32,
}

fn publish_target(tag: &str, lo_h: i8, off: u8, span_h: u8) -> ChunkMetadata {
    let mut md = meta_for(0, lo_h, off, span_h);
    md.path = format!("t/data/merged-{}.parquet", tag);
    md
}

/// `tag` identifies the op (client, index): a publish writes to a path of its own, as the compactor does
fn apply_model(m: &mut BTreeMap<String, MChunk>, op: &Op, tag: &str) -> bool {
    match op {
        Op::Publish { sources, lo_h, off, span_h } => {
            let srcs: Vec<String> = sources.iter().map(|s| path_name(*s)).collect();
            if srcs.iter().any(|s| !m.contains_key(s)) {
                return false;
            }
            let lvl = srcs.iter().filter_map(|s| m.get(s).map(|c| c.level)).max().unwrap_or(0) + 1;
            for s in &srcs {
                m.remove(s);
            }
            let md = publish_target(tag, *lo_h, *off, *span_h);
            m.insert(md.path.clone(), MChunk { min: md.min_timestamp, max: md.max_timestamp, rows: md.row_count, size: md.size_bytes, level: lvl });
            true
        }
        Op::Register { path, lo_h, off, span_h } => {
            let md = meta_for(*path, *lo_h, *off, *span_h);
            m.insert(md.path.clone(), MChunk { min: md.min_timestamp, max: md.max_timestamp, rows: md.row_count, size: md.size_bytes, level: 0 });
            true
        }
        Op::Delete { path } => {
            m.remove(&path_name(*path));
            true
        }
        Op::Compact { sources, target } => {
            let srcs: Vec<String> = sources.iter().map(|s| path_name(*s)).collect();
            let t = path_name(*target);
            let lvl = srcs.iter().filter_map(|s| m.get(s).map(|c| c.level)).max().unwrap_or(0) + 1;
            if srcs.contains(&t) || !m.contains_key(&t) {
                return false;
            }
            for s in &srcs {
                m.remove(s);
            }
            m.get_mut(&t).unwrap().level = lvl;
            true
        }
    }
}

fn bucket(ts: i64) -> i64 {
    (ts / HOUR) * HOUR
}

/// chunk map and time index agree?
pub fn catalog_consistent(cat: &MetadataCatalog) -> Result<(), String> {
    for (b, paths) in &cat.time_index {
        for p in paths {
            if !cat.chunks.contains_key(p) {
                return Err(format!("time index bucket {} lists {} which is not in the chunk map", b, p));
            }
        }
    }
    for (p, c) in &cat.chunks {
        let mut b = bucket(c.base.min_timestamp);
        let e = bucket(c.base.max_timestamp);
        while b <= e {
            if !cat.time_index.get(&b).map(|v| v.contains(p)).unwrap_or(false) {
                return Err(format!("chunk {} [{}..{}] is not listed under hour bucket {}", p, c.base.min_timestamp, c.base.max_timestamp, b));
            }
            b += HOUR;
        }
    }
    Ok(())
}

#[derive(Clone, Debug)]
struct OpResult {
    client: usize,
    idx: usize,
    ok: bool,
    err: String,
    /// request-id window [from, to) in the global log
    from: u64,
    to: u64,
    ryw_violation: Option<String>,
}

pub fn exec(case: &Case) -> Outcome {
    let rt = rt_paused();
    rt.block_on(async {
        let core = SimCore::new();
        let mut out = Outcome::pass();
        // ---- set-up (free-running) ----
        let mut model: BTreeMap<String, MChunk> = BTreeMap::new();
        {
            let setup = ObjectStoreMetadataClient::new(core.node(99), ObjectStoreMetadataConfig::default());
            for (p, lo) in &case.initial {
                let op = Op::Register { path: *p, lo_h: *lo, off: 3, span_h: 1 };
                if let Op::Register { path, lo_h, off, span_h } = &op {
                    let md = meta_for(*path, *lo_h, *off, *span_h);
                    setup.register_chunk(&md.path, &md).await.expect("set-up register");
                }
                apply_model(&mut model, &op, "setup");
            }
            if case.legacy_start && !case.initial.is_empty() {
                // what an upgraded deployment finds: the two legacy files, written by the client's own
                // compatibility paths, and no unified catalog
                let md = setup.load_chunk_metadata().await.expect("set-up load");
                setup.save_chunk_metadata(&md).await.expect("set-up legacy save");
                setup.rebuild_time_index().await.expect("set-up legacy index");
                if let Some(p) = core.find_path("catalog.json") {
                    use object_store::ObjectStore;
                    if let Ok(pp) = object_store::path::Path::parse(&p) { let _ = core.node(99).delete(&pp).await; }
                    out.class("starts-from-the-legacy-two-file-layout");
                }
            }
        }
        let setup_versions = core.versions().len();
        core.set_late_responses(case.late_responses);
        core.set_victim_overtakes(case.overtakes as u32 % 4);
        core.set_scheduled(true);

        // ---- clients ----
        let results: Arc<parking_lot::Mutex<Vec<OpResult>>> = Arc::new(parking_lot::Mutex::new(Vec::new()));
        let victim_done_flag = Arc::new(std::sync::atomic::AtomicBool::new(false));
        let victim_idx = case.victim.map(|v| v as usize % case.clients.len());
        let mut handles = Vec::new();
        let mut reader_handles = Vec::new();
        for (ci, ops) in case.clients.iter().enumerate() {
            let store = core.node(ci as u32);
            let client = Arc::new(ObjectStoreMetadataClient::new(store, ObjectStoreMetadataConfig::default()));
            let n_reads = case.readers.get(ci).copied().unwrap_or(0) % 4;
            if n_reads > 0 {
                // a reader sharing the client (a query node's catalog look-ups next to its writes)
                let rc = client.clone();
                reader_handles.push(tokio::spawn(async move {
                    for k in 0..n_reads {
                        if k % 2 == 0 {
                            let _ = rc.list_chunks().await;
                        } else {
                            let _ = rc.get_chunks(cardinalsin::metadata::TimeRange::new(-10 * HOUR, 40 * HOUR)).await;
                        }
                    }
                }));
            }
            let shared_with_reader = n_reads > 0;
            let pause_between_ops = case.late_responses;
            let ops = ops.clone();
            let core2 = core.clone();
            let results = results.clone();
            let vflag = victim_done_flag.clone();
            let is_victim = victim_idx == Some(ci);
            handles.push(tokio::spawn(async move {
                struct SetOnDrop(Arc<std::sync::atomic::AtomicBool>, bool);
                impl Drop for SetOnDrop {
                    fn drop(&mut self) {
                        if self.1 {
                            self.0.store(true, std::sync::atomic::Ordering::Relaxed);
                        }
                    }
                }
                let _g = SetOnDrop(vflag, is_victim);
                for (idx, op) in ops.iter().enumerate() {
                    if idx > 0 && pause_between_ops {
                        // time passes between two calls of one client: a schedulable gap
                        let _ = core2.gated(ReqDesc { node: ci as u32, op: OpKind::Pause, path: String::new(), detail: "between-ops".into() }, || async {}).await;
                    }
                    let from = core2.log_len() as u64;
                    let r = match op {
                        Op::Register { path, lo_h, off, span_h } => {
                            let md = meta_for(*path, *lo_h, *off, *span_h);
                            client.register_chunk(&md.path, &md).await
                        }
                        Op::Delete { path } => client.delete_chunk(&path_name(*path)).await,
                        Op::Compact { sources, target } => {
                            let srcs: Vec<String> = sources.iter().map(|s| path_name(*s)).collect();
                            client.complete_compaction(&srcs, &path_name(*target)).await
                        }
                        Op::Publish { sources, lo_h, off, span_h } => {
                            let srcs: Vec<String> = sources.iter().map(|s| path_name(*s)).collect();
                            client.publish_compaction(&srcs, &publish_target(&format!("c{}o{}", ci, idx), *lo_h, *off, *span_h)).await
                        }
                    };
                    let to = core2.log_len() as u64;
                    // (d) read-your-writes on the issuing client (served from its own cache: no request)
                    let mut ryw = None;
                    // (with a concurrent reader on the same client its cache is not this task's alone)
                    if r.is_ok() && !shared_with_reader {
                        match op {
                            Op::Register { path, lo_h, off, span_h } => {
                                let md = meta_for(*path, *lo_h, *off, *span_h);
                                match client.get_chunk(&md.path).await {
                                    Ok(Some(c)) if c.min_timestamp == md.min_timestamp && c.max_timestamp == md.max_timestamp => {}
                                    other => ryw = Some(format!("after successful register of {} the same client reads {:?}", md.path, other.map(|o| o.map(|c| (c.min_timestamp, c.max_timestamp))))),
                                }
                            }
                            Op::Delete { path } => {
                                if let Ok(Some(_)) = client.get_chunk(&path_name(*path)).await {
                                    ryw = Some(format!("after successful delete of {} the same client still reads it", path_name(*path)));
                                }
                            }
                            Op::Compact { sources, target } => {
                                for s in sources {
                                    if s % NPATHS != target % NPATHS {
                                        if let Ok(Some(_)) = client.get_chunk(&path_name(*s)).await {
                                            ryw = Some(format!("after successful compaction source {} is still visible to the same client", path_name(*s)));
                                        }
                                    }
                                }
                            }
                            Op::Publish { sources, lo_h, off, span_h } => {
                                for s in sources {
                                    if let Ok(Some(_)) = client.get_chunk(&path_name(*s)).await {
                                        ryw = Some(format!("after a successful publish source {} is still visible to the same client", path_name(*s)));
                                    }
                                }
                                let t = publish_target(&format!("c{}o{}", ci, idx), *lo_h, *off, *span_h);
                                if !matches!(client.get_chunk(&t.path).await, Ok(Some(_))) {
                                    ryw = Some(format!("after a successful publish the target {} is not visible to the same client", t.path));
                                }
                            }
                        }
                    }
                    results.lock().push(OpResult { client: ci, idx, ok: r.is_ok(), err: r.err().map(|e| format!("{:?}", e)).unwrap_or_default(), from, to, ryw_violation: ryw });
                }
            }));
        }

        // ---- driver ----
        let victim = case.victim.map(|v| v as usize % case.clients.len());
        let mut pos = 0usize;
        let mut victim_waits = 0u32;
        let victim_done = victim_done_flag.clone();
        let mut foreign_commits_since_victim_get = 0usize;
        let mut scheduled = 0u64;
        let core3 = core.clone();
        let mut choose = |pend: &[PendingInfo]| -> Choice {
            let sv = if pos < case.schedule.len() { case.schedule[pos] } else { 0 };
            pos += 1;
            // every 8th value class: let virtual time pass instead (back-off timers fire)
            if sv % 8 == 7 && pos <= case.schedule.len() {
                return Choice::Wait(std::time::Duration::from_millis(150 * (1 + (sv as u64 >> 3) % 8)));
            }
            let mut cands: Vec<&PendingInfo> = pend.iter().collect();
            if let Some(v) = victim {
                // victim is backing off (neither parked nor finished): hold the others so
                // that it gets to retry while they still have work left
                if !pend.iter().any(|p| p.desc.node as usize == v) && !victim_done.load(std::sync::atomic::Ordering::Relaxed) && victim_waits < 40 {
                    victim_waits += 1;
                    return Choice::Wait(std::time::Duration::from_millis(400));
                }
            }
            if let Some(v) = victim {
                let vput = pend.iter().find(|p| p.desc.node as usize == v && p.desc.op == OpKind::Put);
                if vput.is_some() && foreign_commits_since_victim_get == 0 {
                    let others: Vec<&PendingInfo> = pend.iter().filter(|p| p.desc.node as usize != v).collect();
                    if !others.is_empty() {
                        cands = others;
                    }
                }
            }
            let pick = cands[pick_idx(sv, cands.len())];
            if let Some(v) = victim {
                if pick.desc.node as usize == v {
                    if pick.desc.op == OpKind::Get && pick.desc.path.ends_with("catalog.json") {
                        foreign_commits_since_victim_get = 0;
                    }
                } else if pick.desc.op == OpKind::Put {
                    foreign_commits_since_victim_get += 1;
                }
            }
            scheduled += 1;
            let _ = &core3;
            Choice::Release(pick.id, Decision::Proceed)
        };
        let mut done = || handles.iter().all(|h| h.is_finished()) && reader_handles.iter().all(|h| h.is_finished());
        let end = drive(&core, &mut done, &mut choose, 4000).await;
        out.count("requests_scheduled", scheduled);
        if end != DriveEnd::Done {
            for h in &handles {
                h.abort();
            }
            out.set_fail("did-not-finish", format!("clients did not finish: {:?}", end));
            return out;
        }
        for h in handles {
            if let Err(e) = h.await {
                if e.is_panic() {
                    out.set_fail("client-panic", format!("a metadata client panicked: {}", take_last_panic().unwrap_or_default()));
                    return out;
                }
            }
        }
        for h in reader_handles {
            let _ = h.await;
        }
        core.set_scheduled(false);
        core.set_late_responses(false);
        if case.readers.iter().any(|r| r % 4 > 0) {
            out.class("reader-shares-a-client-with-a-writer");
        }
        if case.late_responses {
            out.class("late-responses");
        }

        // ---- oracle ----
        let log = core.log();
        let versions = core.versions();
        let cat_versions: Vec<&VersionRec> = versions.iter().skip(setup_versions).filter(|v| v.path.ends_with("catalog.json")).collect();
        let conflicts = log.iter().filter(|l| l.desc.op == OpKind::Put && l.desc.path.ends_with("catalog.json") && (l.outcome == "err:precondition" || l.outcome == "err:exists")).count();
        out.nontrivial = conflicts >= 1;
        out.count("cas_conflicts", conflicts as u64);
        if conflicts >= 1 {
            out.class("conflict");
        }
        if log.iter().any(|l| l.outcome == "err:exists") {
            out.class("create-race");
        }
        let results = results.lock().clone();
        if results.iter().any(|r| !r.ok && r.err.contains("TooManyRetries")) {
            out.class("retry-exhaustion");
        }
        if results.iter().any(|r| !r.ok && r.err.contains("no longer in catalog")) {
            out.class("publish-refused-source-gone");
        }
        if results.iter().any(|r| r.ok && matches!(case.clients[r.client][r.idx], Op::Publish { .. })) {
            out.class("publish-succeeded");
        }
        if results.iter().any(|r| !r.ok && r.err.contains("not found in catalog")) {
            out.class("compaction-target-missing");
        }

        if std::env::var("VERIF_DEBUG").is_ok() {
            for l in core.log() {
                eprintln!("  #{} node {} {:?} {} [{}] -> {} (effect {})", l.id, l.desc.node, l.desc.op, l.desc.path, l.desc.detail, l.outcome, l.effect_seq);
            }
            for r in results.iter() {
                eprintln!("  result client {} op {} ok={} {}", r.client, r.idx, r.ok, r.err);
            }
        }
        // (c) every version consistent
        for (vi, v) in versions.iter().enumerate().filter(|(_, v)| v.path.ends_with("catalog.json")) {
            match serde_json::from_slice::<MetadataCatalog>(&v.data) {
                Ok(cat) => {
                    if let Err(e) = catalog_consistent(&cat) {
                        out.set_fail("inconsistent-catalog-version", format!("catalog version etag {} (written by client {}): {}", v.etag, v.node, e));
                        return out;
                    }
                }
                Err(e) => {
                    out.set_fail("unparsable-catalog-version", format!("catalog version etag {} does not parse: {}", v.etag, e));
                    return out;
                }
            }
            // (the set-up's legacy files are written through the client's test-convenience path, which is unconditional)
            if !v.conditional && vi >= setup_versions {
                out.set_fail("unconditional-catalog-write", format!("catalog version etag {} was written with an unconditional PUT", v.etag));
                return out;
            }
        }

        // (b) + commit order
        let mut committed: Vec<(u64, &OpResult)> = Vec::new();
        for r in &results {
            let mine: Vec<&&VersionRec> = cat_versions.iter().filter(|v| v.node as usize == r.client && v.req_id >= r.from && v.req_id < r.to).collect();
            if r.ok {
                if mine.len() != 1 {
                    out.set_fail("success-without-single-commit", format!("client {} op {} reported success but committed {} catalog versions", r.client, r.idx, mine.len()));
                    return out;
                }
                committed.push((mine[0].effect_seq, r));
            } else if !mine.is_empty() {
                out.set_fail("failure-with-effect", format!("client {} op {} reported {} but committed a catalog version", r.client, r.idx, r.err));
                return out;
            }
            if let Some(v) = &r.ryw_violation {
                out.set_fail("read-your-writes", v.clone());
                return out;
            }
        }
        committed.sort_by_key(|c| c.0);
        // (a) witness
        for (_, r) in &committed {
            let op = &case.clients[r.client][r.idx];
            let applied = apply_model(&mut model, op, &format!("c{}o{}", r.client, r.idx));
            if !applied {
                out.set_fail("success-of-inapplicable-op", format!("client {} op {} ({:?}) reported success although, at its commit point, it should have been refused", r.client, r.idx, op));
                return out;
            }
        }
        // final catalog through a fresh client
        let fresh = ObjectStoreMetadataClient::new(core.node(98), ObjectStoreMetadataConfig::default());
        let listed = match fresh.list_chunks().await {
            Ok(l) => l,
            Err(e) => {
                out.set_fail("final-read-failed", format!("fresh client cannot list: {:?}", e));
                return out;
            }
        };
        let mut got: BTreeMap<String, MChunk> = BTreeMap::new();
        let md = fresh.load_chunk_metadata().await.unwrap_or_default();
        for e in listed {
            let level = md.get(&e.chunk_path).map(|m| m.level).unwrap_or(999);
            got.insert(e.chunk_path.clone(), MChunk { min: e.min_timestamp, max: e.max_timestamp, rows: e.row_count, size: e.size_bytes, level });
        }
        if got != model {
            let missing: Vec<&String> = model.keys().filter(|k| !got.contains_key(*k)).collect();
            let extra: Vec<&String> = got.keys().filter(|k| !model.contains_key(*k)).collect();
            let sig = if !missing.is_empty() {
                "lost-update"
            } else if !extra.is_empty() {
                "resurrected-or-phantom-chunk"
            } else {
                "wrong-fields-or-level"
            };
            out.set_fail(sig, format!("final catalog differs from the one-at-a-time replay in commit order: missing {:?}, extra {:?}; expected {:?} got {:?}", missing, extra, model, got));
            return out;
        }
        out
    })
}

fn op() -> impl Strategy<Value = Op> {
    prop_oneof![
        5 => (0u8..NPATHS, -3i8..30, any::<u8>(), 0u8..3).prop_map(|(path, lo_h, off, span_h)| Op::Register { path, lo_h, off, span_h }),
        2 => (0u8..NPATHS).prop_map(|path| Op::Delete { path }),
        2 => (prop::collection::vec(0u8..NPATHS, 1..4), 0u8..NPATHS).prop_map(|(sources, target)| Op::Compact { sources, target }),
        3 => (prop::collection::vec(0u8..NPATHS, 1..4), -3i8..30, any::<u8>(), 0u8..3).prop_map(|(sources, lo_h, off, span_h)| Op::Publish { sources, lo_h, off, span_h }),
    ]
}

fn strategy(t: Tier) -> BoxedStrategy<Case> {
    let maxc = t.pick(5usize, 7usize);
    let maxo = t.pick(4usize, 6usize);
    (
        prop::collection::vec(prop::collection::vec(op(), 1..=maxo), 2..maxc),
        prop::collection::vec(any::<u16>(), 0..120),
        prop_oneof![2 => Just(None), 1 => (0u8..6).prop_map(Some)],
        prop::collection::vec((0u8..NPATHS, 0i8..20), 0..5),
    )
        .prop_map(|(clients, schedule, victim, initial)| Case { clients, schedule, victim, initial, readers: vec![], late_responses: false, legacy_start: false, overtakes: 0 })
        .boxed()
}

pub fn def() -> PropDef {
    PropDef {
        id: "C02",
        level: "exploration",
        rule: "2-6 ObjectStoreMetadataClients, each 1-4 (thorough 6) ops from {register(8 paths, multi-bucket intervals), delete, complete_compaction, publish_compaction(1-3 sources -> a fresh path, must be refused unless every source is registered at its commit point)}, interleaved at object-store-request granularity by a generated schedule (incl. virtual-time waits and an optional victim that is always overtaken - by one, two or three writes of other clients - between GET and PUT); 0-4 chunks pre-registered (one case in five then starts from the legacy two-file layout - chunks/metadata.json + time-index.json, no catalog.json - so that every client's first load takes the fall-back path and the first write creates the catalog); optionally a second task issues 1-3 catalog reads through the same client object while its mutations run, and optionally the answer of every catalog GET reaches its caller as a separate schedulable event (late responses). Non-trivial = at least one conditional PUT on catalog.json was answered with a conflict. Distinct = distinct canonical JSON of (ops, schedule, victim, initial).",
        assumptions: &[
            "SimStore conforms to S3 conditional-write semantics (If-None-Match:* create, If-Match:etag update, strong read-after-write); it mirrors object_store::memory::InMemory",
            "a schedule is a total order of request effects (requests are atomic)",
        ],
        subs: || {
            vec![Box::new(Sub::<Case> {
                name: "race",
                cases: |t| t.scale(400_000, 8),
                strategy: |t| (strategy(t), prop_oneof![2 => Just(vec![]), 1 => prop::collection::vec(0u8..4, 1..4)], prop::bool::weighted(0.3), prop::bool::weighted(0.2), prop_oneof![3 => Just(0u8), 1 => Just(2u8), 1 => Just(3u8)]).prop_map(|(mut c, readers, late, legacy, overtakes)| { c.readers = readers; c.late_responses = late; c.legacy_start = legacy; c.overtakes = overtakes; c }).boxed(),
                exec,
            })]
        },
    }
}
