//! Registry of property checks.
use crate::core::PropDef;

pub mod c12;

pub fn all() -> Vec<PropDef> {
    vec![c12::def()]
}
