//! Deterministic, scriptable object store (`SimStore`) + request gate shared
//! with metadata wrappers and pause points.
//!
//! * semantics mirror `object_store::memory::InMemory` 0.11 (Overwrite / Create /
//!   Update(etag), conditional + ranged GET, list, copy, buffered multipart);
//! * every request is attributed to a *node* (one handle per simulated process);
//! * in scheduled mode a request first parks in `pending`; the driver releases
//!   one at a time (with an optional fault), so a schedule is a `Vec<u16>`;
//! * faults: FailBefore / FailAfter (lost response) / CrashBefore / CrashAfter;
//! * full request log + every version ever written of `*.json` objects;
//! * surgery: rewrite stored bytes without changing the ETag (time shifting).

use async_trait::async_trait;
use bytes::Bytes;
use chrono::{DateTime, Utc};
use futures::stream::BoxStream;
use futures::StreamExt;
use object_store::path::Path;
use object_store::{
    Attributes, GetOptions, GetRange, GetResult, GetResultPayload, ListResult, MultipartUpload, ObjectMeta, ObjectStore, PutMode, PutMultipartOpts, PutOptions,
    PutPayload, PutResult, Result as OsResult, UploadPart,
};
use parking_lot::Mutex;
use serde::{Deserialize, Serialize};
use std::collections::{BTreeMap, BTreeSet};
use std::ops::Range;
use std::sync::Arc;
use tokio::sync::{oneshot, Notify};

#[derive(Clone, Copy, Debug, PartialEq, Eq, Serialize, Deserialize)]
pub enum Decision {
    Proceed,
    /// error returned, no effect
    FailBefore,
    /// effect applied, error returned (lost response)
    FailAfter,
    /// node dies before the effect
    CrashBefore,
    /// effect applied, node dies before seeing the response
    CrashAfter,
}

#[derive(Clone, Copy, Debug, PartialEq, Eq, Serialize, Deserialize)]
pub enum OpKind {
    Put,
    Get,
    Head,
    Delete,
    List,
    Copy,
    /// a metadata-trait call (SimMetadata) or a pause point
    Meta,
    Pause,
    /// delivery of a read's response (only with `set_late_responses`): the read took effect when
    /// its request was served; its answer reaches the caller when this is released
    Resp,
}

impl OpKind {
    pub fn mutating(&self) -> bool {
        matches!(self, OpKind::Put | OpKind::Delete | OpKind::Copy)
    }
}

#[derive(Clone, Debug, Serialize, Deserialize)]
pub struct ReqDesc {
    pub node: u32,
    pub op: OpKind,
    pub path: String,
    /// put mode ("overwrite" | "create" | "update:<etag>"), meta-call name, pause-point name
    pub detail: String,
}

#[derive(Clone, Debug, Serialize, Deserialize)]
pub struct ReqLog {
    pub id: u64,
    pub desc: ReqDesc,
    pub decision: Option<Decision>,
    /// "ok", "err:<kind>", "dead", "parked"
    pub outcome: String,
    /// order in which effects were applied (0 = no effect applied)
    pub effect_seq: u64,
    /// number of mutations that had been applied when this request was served
    /// (identifies the version a read observed)
    pub seen_seq: u64,
    /// wall-clock time at which the request was served
    #[serde(skip, default = "Utc::now")]
    pub wall: DateTime<Utc>,
    /// position in the order in which requests (of any kind, pauses included) were served; 0 = not served
    #[serde(default)]
    pub served: u64,
    /// how many requests had been served when this one arrived
    #[serde(default)]
    pub arrival_served: u64,
}

#[derive(Clone, Debug)]
pub struct VersionRec {
    pub path: String,
    pub etag: String,
    pub data: Bytes,
    pub node: u32,
    pub req_id: u64,
    pub effect_seq: u64,
    pub conditional: bool,
    /// logical time shift (seconds) in force when committed
    pub shift_s: i64,
    pub wall: DateTime<Utc>,
}

pub const HARNESS_NODE: u32 = u32::MAX;

#[derive(Clone, Debug)]
pub struct PendingInfo {
    pub id: u64,
    pub desc: ReqDesc,
}

struct Pending {
    id: u64,
    node_seq: u64,
    desc: ReqDesc,
    tx: oneshot::Sender<Decision>,
}

#[derive(Clone, Debug)]
struct Entry {
    data: Bytes,
    last_modified: DateTime<Utc>,
    attributes: Attributes,
    e_tag: u64,
}

#[derive(Clone, Debug)]
pub struct DeleteRec {
    pub path: String,
    pub node: u32,
    pub req_id: u64,
    pub effect_seq: u64,
    pub existed: bool,
    pub shift_s: i64,
    pub wall: DateTime<Utc>,
}

#[derive(Default)]
struct State {
    map: BTreeMap<Path, Entry>,
    next_etag: u64,
    scheduled: bool,
    pending: Vec<Pending>,
    log: Vec<ReqLog>,
    versions: Vec<VersionRec>,
    deletes: Vec<DeleteRec>,
    /// every attempted upload of a *.parquet object (any outcome): (node, path, payload)
    attempts: Vec<(u32, String, Bytes)>,
    dead: BTreeSet<u32>,
    next_id: u64,
    node_seq: BTreeMap<u32, u64>,
    effect_seq: u64,
    served: u64,
    late_responses: bool,
    /// every read's response (also a failure's) is delivered as a separate schedulable event
    late_all_reads: bool,
    /// how many commits of other nodes overtake the victim between its read and its write (0 = 1)
    victim_overtakes: u32,
    /// free-running fault plan: (global ordinal among *counted* requests, decision)
    fault_plan: BTreeMap<u64, Decision>,
    /// ordinal counter for the fault plan (counts only requests matching `fault_filter_node`)
    counted: u64,
    fault_filter_node: Option<u32>,
    /// only requests of these nodes are gated in scheduled mode (None = all)
    gate_nodes: Option<BTreeSet<u32>>,
    shift_s: i64,
}

pub struct SimCore {
    st: Mutex<State>,
    pub arrival: Notify,
}

impl std::fmt::Debug for SimCore {
    fn fmt(&self, f: &mut std::fmt::Formatter<'_>) -> std::fmt::Result {
        write!(f, "SimCore")
    }
}

/// Store key for a path string as printed by `Path::to_string` (already percent-encoded).
fn key(path: &str) -> Path {
    Path::parse(path).unwrap_or_else(|_| Path::from(path))
}

fn injected(path: &str) -> object_store::Error {
    object_store::Error::Generic { store: "SimStore", source: format!("injected fault at {}", path).into() }
}

impl SimCore {
    pub fn new() -> Arc<Self> {
        Arc::new(Self { st: Mutex::new(State::default()), arrival: Notify::new() })
    }

    pub fn node(self: &Arc<Self>, node: u32) -> Arc<NodeStore> {
        Arc::new(NodeStore { node, core: self.clone() })
    }

    /// Reads of catalog-like objects (GET of *.json) answer in two steps: effect when served,
    /// delivery as a separate schedulable event - a response that arrives late.
    pub fn set_late_responses(&self, on: bool) {
        self.st.lock().late_responses = on;
    }
    /// The response of every GET - successful or not, of any object - is delivered as a separate
    /// schedulable event: the answer was computed when the request was served, but reaches the
    /// caller later (other requests can take effect in between).
    pub fn set_late_all_reads(&self, on: bool) {
        self.st.lock().late_all_reads = on;
    }
    /// The victim of `drive_schedule` is held back until this many writes of other nodes have taken
    /// effect since its last read (default 1).
    pub fn set_victim_overtakes(&self, k: u32) {
        self.st.lock().victim_overtakes = k;
    }

    pub fn set_scheduled(&self, on: bool) {
        self.st.lock().scheduled = on;
    }
    pub fn set_gate_nodes(&self, nodes: Option<Vec<u32>>) {
        self.st.lock().gate_nodes = nodes.map(|v| v.into_iter().collect());
    }
    pub fn set_fault_plan(&self, plan: Vec<(u64, Decision)>, only_node: Option<u32>) {
        let mut st = self.st.lock();
        st.fault_plan = plan.into_iter().collect();
        st.counted = 0;
        st.fault_filter_node = only_node;
    }
    pub fn clear_faults(&self) {
        let mut st = self.st.lock();
        st.fault_plan.clear();
    }
    /// number of requests counted for the fault plan since it was set
    pub fn counted(&self) -> u64 {
        self.st.lock().counted
    }
    pub fn reset_counted(&self) {
        self.st.lock().counted = 0;
    }
    pub fn kill(&self, node: u32) {
        let mut st = self.st.lock();
        st.dead.insert(node);
        // parked requests of a dead node never complete: drop their senders' counterparts
        // by keeping them out of `pending` (receiver sees a closed channel => pending forever)
        let mut keep = Vec::new();
        for p in st.pending.drain(..) {
            if p.desc.node == node {
                std::mem::forget(p.tx); // never resolve
            } else {
                keep.push(p);
            }
        }
        st.pending = keep;
    }
    pub fn is_dead(&self, node: u32) -> bool {
        self.st.lock().dead.contains(&node)
    }
    pub fn revive(&self, node: u32) {
        self.st.lock().dead.remove(&node);
    }
    pub fn shift_s(&self) -> i64 {
        self.st.lock().shift_s
    }
    pub fn add_shift(&self, s: i64) {
        self.st.lock().shift_s += s;
    }
    /// logical now = wall + shift
    pub fn logical_now(&self) -> DateTime<Utc> {
        Utc::now() + chrono::Duration::seconds(self.shift_s())
    }

    pub fn pending(&self) -> Vec<PendingInfo> {
        let mut st = self.st.lock();
        st.pending.sort_by_key(|p| (p.desc.node, p.node_seq));
        st.pending.iter().map(|p| PendingInfo { id: p.id, desc: p.desc.clone() }).collect()
    }
    pub fn pending_len(&self) -> usize {
        self.st.lock().pending.len()
    }
    /// Release the parked request with this id.
    pub fn release(&self, id: u64, d: Decision) -> bool {
        let mut st = self.st.lock();
        if let Some(i) = st.pending.iter().position(|p| p.id == id) {
            let p = st.pending.remove(i);
            if let Some(l) = st.log.iter_mut().find(|l| l.id == id) {
                l.decision = Some(d);
            }
            let _ = p.tx.send(d);
            true
        } else {
            false
        }
    }
    pub fn release_all(&self) {
        let ids: Vec<u64> = self.st.lock().pending.iter().map(|p| p.id).collect();
        for id in ids {
            self.release(id, Decision::Proceed);
        }
    }

    pub fn log(&self) -> Vec<ReqLog> {
        self.st.lock().log.clone()
    }
    pub fn log_len(&self) -> usize {
        self.st.lock().log.len()
    }
    pub fn versions(&self) -> Vec<VersionRec> {
        self.st.lock().versions.clone()
    }
    pub fn versions_of(&self, suffix: &str) -> Vec<VersionRec> {
        self.st.lock().versions.iter().filter(|v| v.path.ends_with(suffix)).cloned().collect()
    }
    pub fn attempts(&self) -> Vec<(u32, String, Bytes)> {
        self.st.lock().attempts.clone()
    }
    pub fn deletes(&self) -> Vec<DeleteRec> {
        self.st.lock().deletes.clone()
    }
    pub fn mutation_count(&self) -> u64 {
        self.st.lock().effect_seq
    }

    // ---- direct (un-gated, un-logged) access for oracles and set-up ----
    pub fn peek(&self, path: &str) -> Option<Bytes> {
        self.st.lock().map.get(&key(path)).map(|e| e.data.clone())
    }
    pub fn exists(&self, path: &str) -> bool {
        self.st.lock().map.contains_key(&key(path))
    }
    pub fn paths(&self) -> Vec<String> {
        self.st.lock().map.keys().map(|k| k.to_string()).collect()
    }
    pub fn snapshot(&self) -> BTreeMap<String, (u64, Bytes)> {
        self.st.lock().map.iter().map(|(k, v)| (k.to_string(), (v.e_tag, v.data.clone()))).collect()
    }
    pub fn find_path(&self, suffix: &str) -> Option<String> {
        self.st.lock().map.keys().map(|k| k.to_string()).find(|k| k.ends_with(suffix))
    }
    /// Harness write (set-up): plain overwrite, not logged as a SUT request.
    pub fn poke(&self, path: &str, data: Bytes) {
        let mut st = self.st.lock();
        let e_tag = st.next_etag;
        st.next_etag += 1;
        st.map.insert(key(path), Entry { data, last_modified: Utc::now(), attributes: Attributes::default(), e_tag });
    }
    /// Rewrite stored bytes (used to shift stored instants).  The ETag is bumped so
    /// that any read-modify-write in flight across the rewrite is refused and
    /// restarts from the rewritten state (its payload would otherwise carry
    /// instants computed in the old time frame).  Recorded as a version written
    /// by `HARNESS_NODE`.
    pub fn surgery(&self, path: &str, f: impl FnOnce(&[u8]) -> Option<Vec<u8>>) -> bool {
        let mut st = self.st.lock();
        let key = key(path);
        let nb = match st.map.get(&key).and_then(|e| f(&e.data)) {
            Some(nb) => Bytes::from(nb),
            None => return false,
        };
        let e_tag = st.next_etag;
        st.next_etag += 1;
        st.effect_seq += 1;
        let eseq = st.effect_seq;
        let shift_s = st.shift_s;
        if let Some(e) = st.map.get_mut(&key) {
            e.data = nb.clone();
            e.e_tag = e_tag;
        }
        st.versions.push(VersionRec { path: path.to_string(), etag: e_tag.to_string(), data: nb, node: HARNESS_NODE, req_id: u64::MAX, effect_seq: eseq, conditional: true, shift_s, wall: Utc::now() });
        true
    }

    // ---- the gate ----
    /// Called at the start of every request.  Returns the decision, or never
    /// returns if the node is dead.
    pub async fn gate(&self, desc: ReqDesc) -> (u64, Decision) {
        enum G {
            Dead,
            Free(u64, Decision),
            Park(u64, oneshot::Receiver<Decision>),
        }
        let g = {
            let mut st = self.st.lock();
            let id = st.next_id;
            st.next_id += 1;
            let dead = st.dead.contains(&desc.node);
            let arrival_served = st.served;
            st.log.push(ReqLog { id, desc: desc.clone(), decision: None, outcome: if dead { "dead".into() } else { "parked".into() }, effect_seq: 0, seen_seq: 0, wall: Utc::now(), served: 0, arrival_served });
            if dead {
                G::Dead
            } else {
                let gated = st.scheduled && st.gate_nodes.as_ref().map(|g| g.contains(&desc.node)).unwrap_or(true);
                if !gated {
                    // free-running: consult the fault plan
                    let counts = st.fault_filter_node.map(|n| n == desc.node).unwrap_or(true);
                    let mut d = Decision::Proceed;
                    if counts {
                        let k = st.counted;
                        st.counted += 1;
                        if let Some(dd) = st.fault_plan.get(&k) {
                            d = *dd;
                        }
                    }
                    if let Some(l) = st.log.last_mut() {
                        l.decision = Some(d);
                    }
                    G::Free(id, d)
                } else {
                    let (tx, rx) = oneshot::channel();
                    let seq = {
                        let e = st.node_seq.entry(desc.node).or_insert(0);
                        *e += 1;
                        *e
                    };
                    st.pending.push(Pending { id, node_seq: seq, desc, tx });
                    G::Park(id, rx)
                }
            }
        };
        match g {
            G::Dead => {
                futures::future::pending::<()>().await;
                unreachable!()
            }
            G::Free(id, d) => (id, d),
            G::Park(id, rx) => {
                self.arrival.notify_waiters();
                self.arrival.notify_one();
                match rx.await {
                    Ok(d) => (id, d),
                    Err(_) => {
                        // sender gone: node was killed while parked
                        futures::future::pending::<()>().await;
                        unreachable!()
                    }
                }
            }
        }
    }

    pub fn finish(&self, id: u64, outcome: &str, effect_seq: u64) {
        let mut st = self.st.lock();
        let seen = st.effect_seq;
        st.served += 1;
        let served = st.served;
        if let Some(l) = st.log.iter_mut().rev().find(|l| l.id == id) {
            l.served = served;
            l.outcome = outcome.to_string();
            l.effect_seq = effect_seq;
            l.seen_seq = seen;
            l.wall = Utc::now();
        }
    }

    async fn die(&self, node: u32) -> ! {
        self.kill(node);
        futures::future::pending::<()>().await;
        unreachable!()
    }

    /// Generic gate for non-store requests (metadata-trait calls, pause points):
    /// runs `effect` according to the decision.  Returns Err(()) for an injected failure.
    pub async fn gated<T, Fut: std::future::Future<Output = T>>(&self, desc: ReqDesc, effect: impl FnOnce() -> Fut) -> Result<T, ()> {
        let node = desc.node;
        let (id, d) = self.gate(desc).await;
        match d {
            Decision::Proceed => {
                let v = effect().await;
                self.finish(id, "ok", 0);
                Ok(v)
            }
            Decision::FailBefore => {
                self.finish(id, "err:injected-before", 0);
                Err(())
            }
            Decision::FailAfter => {
                let _ = effect().await;
                self.finish(id, "err:injected-after", 0);
                Err(())
            }
            Decision::CrashBefore => {
                self.finish(id, "crash-before", 0);
                self.die(node).await
            }
            Decision::CrashAfter => {
                let _ = effect().await;
                self.finish(id, "crash-after", 0);
                self.die(node).await
            }
        }
    }
}

/// One simulated process' handle onto the shared store.
#[derive(Debug)]
pub struct NodeStore {
    pub node: u32,
    pub core: Arc<SimCore>,
}

impl std::fmt::Display for NodeStore {
    fn fmt(&self, f: &mut std::fmt::Formatter<'_>) -> std::fmt::Result {
        write!(f, "SimStore(node {})", self.node)
    }
}

fn as_range(r: &GetRange, len: usize) -> Result<Range<usize>, String> {
    match r {
        GetRange::Bounded(r) => {
            if r.end <= r.start {
                Err(format!("Range started at {} and ended at {}", r.start, r.end))
            } else if r.start >= len {
                Err(format!("Wanted range starting at {}, but object was only {} bytes long", r.start, len))
            } else if r.end > len {
                Ok(r.start..len)
            } else {
                Ok(r.clone())
            }
        }
        GetRange::Offset(o) => {
            if *o >= len {
                Err(format!("Wanted range starting at {}, but object was only {} bytes long", o, len))
            } else {
                Ok(*o..len)
            }
        }
        GetRange::Suffix(n) => Ok(len.saturating_sub(*n)..len),
    }
}

/// Copy of object_store 0.11.2 `GetOptions::check_preconditions` (private there).
fn check_preconditions(o: &GetOptions, meta: &ObjectMeta) -> OsResult<()> {
    let etag = meta.e_tag.as_deref().unwrap_or("*");
    let last_modified = meta.last_modified;
    if let Some(m) = &o.if_match {
        if m != "*" && m.split(',').map(str::trim).all(|x| x != etag) {
            return Err(object_store::Error::Precondition { path: meta.location.to_string(), source: format!("{etag} does not match {m}").into() });
        }
    } else if let Some(date) = o.if_unmodified_since {
        if last_modified > date {
            return Err(object_store::Error::Precondition { path: meta.location.to_string(), source: format!("{date} < {last_modified}").into() });
        }
    }
    if let Some(m) = &o.if_none_match {
        if m == "*" || m.split(',').map(str::trim).any(|x| x == etag) {
            return Err(object_store::Error::NotModified { path: meta.location.to_string(), source: format!("{etag} matches {m}").into() });
        }
    } else if let Some(date) = o.if_modified_since {
        if last_modified <= date {
            return Err(object_store::Error::NotModified { path: meta.location.to_string(), source: format!("{date} >= {last_modified}").into() });
        }
    }
    Ok(())
}

fn generic(msg: String) -> object_store::Error {
    object_store::Error::Generic { store: "SimStore", source: msg.into() }
}

fn not_found(path: &Path) -> object_store::Error {
    object_store::Error::NotFound { path: path.to_string(), source: format!("No data in memory found. Location: {}", path).into() }
}

impl NodeStore {
    fn desc(&self, op: OpKind, path: &Path, detail: impl Into<String>) -> ReqDesc {
        ReqDesc { node: self.node, op, path: path.to_string(), detail: detail.into() }
    }

    /// Apply a put to the state; returns (etag, effect_seq).
    fn apply_put(&self, id: u64, location: &Path, data: Bytes, mode: &PutMode, attributes: Attributes) -> OsResult<(u64, u64)> {
        let mut st = self.core.st.lock();
        let e_tag = st.next_etag;
        let entry = Entry { data: data.clone(), last_modified: Utc::now(), attributes, e_tag };
        match mode {
            PutMode::Overwrite => {
                st.map.insert(location.clone(), entry);
            }
            PutMode::Create => {
                if st.map.contains_key(location) {
                    return Err(object_store::Error::AlreadyExists {
                        path: location.to_string(),
                        source: format!("Object already exists at that location: {}", location).into(),
                    });
                }
                st.map.insert(location.clone(), entry);
            }
            PutMode::Update(v) => match st.map.get_mut(location) {
                None => {
                    return Err(object_store::Error::Precondition { path: location.to_string(), source: format!("Object at location {} not found", location).into() });
                }
                Some(e) => {
                    let existing = e.e_tag.to_string();
                    let expected = match &v.e_tag {
                        Some(t) => t.clone(),
                        None => return Err(generic("ETag required for conditional update".into())),
                    };
                    if existing == expected {
                        *e = entry;
                    } else {
                        return Err(object_store::Error::Precondition { path: location.to_string(), source: format!("{} does not match {}", existing, expected).into() });
                    }
                }
            },
        }
        st.next_etag += 1;
        st.effect_seq += 1;
        let eseq = st.effect_seq;
        let p = location.to_string();
        let keep_data = p.ends_with(".json");
        let shift_s = st.shift_s;
        st.versions.push(VersionRec {
            path: p,
            etag: e_tag.to_string(),
            data: if keep_data { data } else { Bytes::new() },
            node: self.node,
            req_id: id,
            effect_seq: eseq,
            conditional: !matches!(mode, PutMode::Overwrite),
            shift_s,
            wall: Utc::now(),
        });
        Ok((e_tag, eseq))
    }

    fn entry(&self, location: &Path) -> OsResult<Entry> {
        self.core.st.lock().map.get(location).cloned().ok_or_else(|| not_found(location))
    }

    fn err_kind(e: &object_store::Error) -> &'static str {
        match e {
            object_store::Error::NotFound { .. } => "err:notfound",
            object_store::Error::AlreadyExists { .. } => "err:exists",
            object_store::Error::Precondition { .. } => "err:precondition",
            object_store::Error::NotModified { .. } => "err:notmodified",
            _ => "err:other",
        }
    }

    /// Common wrapper: gate, then run `effect` per the decision.
    async fn request<T>(&self, desc: ReqDesc, effect: impl FnOnce(u64) -> OsResult<(T, u64)>) -> OsResult<T> {
        let path = desc.path.clone();
        let (id, d) = self.core.gate(desc).await;
        match d {
            Decision::Proceed => match effect(id) {
                Ok((v, eseq)) => {
                    self.core.finish(id, "ok", eseq);
                    Ok(v)
                }
                Err(e) => {
                    self.core.finish(id, Self::err_kind(&e), 0);
                    Err(e)
                }
            },
            Decision::FailBefore => {
                self.core.finish(id, "err:injected-before", 0);
                Err(injected(&path))
            }
            Decision::FailAfter => {
                let eseq = effect(id).map(|(_, s)| s).unwrap_or(0);
                self.core.finish(id, "err:injected-after", eseq);
                Err(injected(&path))
            }
            Decision::CrashBefore => {
                self.core.finish(id, "crash-before", 0);
                self.core.die(self.node).await
            }
            Decision::CrashAfter => {
                let eseq = effect(id).map(|(_, s)| s).unwrap_or(0);
                self.core.finish(id, "crash-after", eseq);
                self.core.die(self.node).await
            }
        }
    }
}

#[async_trait]
impl ObjectStore for NodeStore {
    async fn put_opts(&self, location: &Path, payload: PutPayload, opts: PutOptions) -> OsResult<PutResult> {
        let detail = match &opts.mode {
            PutMode::Overwrite => "overwrite".to_string(),
            PutMode::Create => "create".to_string(),
            PutMode::Update(v) => format!("update:{}", v.e_tag.clone().unwrap_or_default()),
        };
        let data: Bytes = payload.into();
        if location.as_ref().ends_with(".parquet") {
            self.core.st.lock().attempts.push((self.node, location.to_string(), data.clone()));
        }
        let mode = opts.mode.clone();
        let attrs = opts.attributes.clone();
        self.request(self.desc(OpKind::Put, location, detail), |id| {
            let (etag, eseq) = self.apply_put(id, location, data, &mode, attrs)?;
            Ok((PutResult { e_tag: Some(etag.to_string()), version: None }, eseq))
        })
        .await
    }

    async fn put_multipart_opts(&self, location: &Path, opts: PutMultipartOpts) -> OsResult<Box<dyn MultipartUpload>> {
        Ok(Box::new(SimUpload { location: location.clone(), attributes: opts.attributes, parts: vec![], store: NodeStore { node: self.node, core: self.core.clone() } }))
    }

    async fn get_opts(&self, location: &Path, options: GetOptions) -> OsResult<GetResult> {
        let (op, detail) = if options.head {
            (OpKind::Head, "head".to_string())
        } else {
            let mut d = String::new();
            if let Some(r) = &options.range {
                d.push_str(&format!("range:{}", r));
            }
            if options.if_match.is_some() {
                d.push_str(" if-match");
            }
            if options.if_none_match.is_some() {
                d.push_str(" if-none-match");
            }
            (OpKind::Get, d)
        };
        let op_is_get = op == OpKind::Get;
        let res = self.request(self.desc(op, location, detail), |_id| {
            let entry = self.entry(location)?;
            let meta = ObjectMeta { location: location.clone(), last_modified: entry.last_modified, size: entry.data.len(), e_tag: Some(entry.e_tag.to_string()), version: None };
            check_preconditions(&options, &meta)?;
            let (range, data) = match &options.range {
                Some(r) => {
                    let rr = as_range(r, entry.data.len()).map_err(generic)?;
                    (rr.clone(), entry.data.slice(rr))
                }
                None => (0..entry.data.len(), entry.data.clone()),
            };
            let stream = futures::stream::once(futures::future::ready(Ok(data)));
            Ok((GetResult { payload: GetResultPayload::Stream(stream.boxed()), attributes: entry.attributes, meta, range }, 0))
        })
        .await;
        let late = {
            let st = self.core.st.lock();
            st.late_all_reads || (res.is_ok() && location.as_ref().ends_with(".json") && st.late_responses)
        };
        if op_is_get && late {
            let (id, _d) = self.core.gate(ReqDesc { node: self.node, op: OpKind::Resp, path: location.to_string(), detail: "response".into() }).await;
            self.core.finish(id, "ok", 0);
        }
        res
    }

    async fn get_ranges(&self, location: &Path, ranges: &[Range<usize>]) -> OsResult<Vec<Bytes>> {
        let detail = format!("ranges:{}", ranges.len());
        self.request(self.desc(OpKind::Get, location, detail), |_id| {
            let entry = self.entry(location)?;
            let mut out = Vec::new();
            for r in ranges {
                let rr = as_range(&GetRange::Bounded(r.clone()), entry.data.len()).map_err(generic)?;
                out.push(entry.data.slice(rr));
            }
            Ok((out, 0))
        })
        .await
    }

    async fn head(&self, location: &Path) -> OsResult<ObjectMeta> {
        self.request(self.desc(OpKind::Head, location, "head"), |_id| {
            let entry = self.entry(location)?;
            Ok((ObjectMeta { location: location.clone(), last_modified: entry.last_modified, size: entry.data.len(), e_tag: Some(entry.e_tag.to_string()), version: None }, 0))
        })
        .await
    }

    async fn delete(&self, location: &Path) -> OsResult<()> {
        self.request(self.desc(OpKind::Delete, location, "delete"), |id| {
            let mut st = self.core.st.lock();
            let existed = st.map.remove(location).is_some();
            st.effect_seq += 1;
            let eseq = st.effect_seq;
            let shift_s = st.shift_s;
            st.deletes.push(DeleteRec { path: location.to_string(), node: self.node, req_id: id, effect_seq: eseq, existed, shift_s, wall: Utc::now() });
            Ok(((), eseq))
        })
        .await
    }

    fn list(&self, prefix: Option<&Path>) -> BoxStream<'_, OsResult<ObjectMeta>> {
        let root = Path::default();
        let prefix = prefix.unwrap_or(&root).clone();
        let fut = async move {
            let r = self
                .request(self.desc(OpKind::List, &prefix, "list"), |_id| {
                    let st = self.core.st.lock();
                    let values: Vec<OsResult<ObjectMeta>> = st
                        .map
                        .range((&prefix)..)
                        .take_while(|(key, _)| key.as_ref().starts_with(prefix.as_ref()))
                        .filter(|(key, _)| key.prefix_match(&prefix).map(|mut x| x.next().is_some()).unwrap_or(false))
                        .map(|(key, value)| {
                            Ok(ObjectMeta { location: key.clone(), last_modified: value.last_modified, size: value.data.len(), e_tag: Some(value.e_tag.to_string()), version: None })
                        })
                        .collect();
                    Ok((values, 0))
                })
                .await;
            match r {
                Ok(v) => futures::stream::iter(v).boxed(),
                Err(e) => futures::stream::iter(vec![Err(e)]).boxed(),
            }
        };
        futures::stream::once(fut).flatten().boxed()
    }

    async fn list_with_delimiter(&self, prefix: Option<&Path>) -> OsResult<ListResult> {
        let root = Path::default();
        let prefix = prefix.unwrap_or(&root).clone();
        self.request(self.desc(OpKind::List, &prefix, "list-delim"), |_id| {
            let st = self.core.st.lock();
            let mut common_prefixes = BTreeSet::new();
            let mut objects = vec![];
            for (k, v) in st.map.range((&prefix)..) {
                if !k.as_ref().starts_with(prefix.as_ref()) {
                    break;
                }
                let mut parts = match k.prefix_match(&prefix) {
                    Some(parts) => parts,
                    None => continue,
                };
                let common_prefix = match parts.next() {
                    Some(p) => p,
                    None => continue,
                };
                if parts.next().is_some() {
                    common_prefixes.insert(prefix.child(common_prefix));
                } else {
                    objects.push(ObjectMeta { location: k.clone(), last_modified: v.last_modified, size: v.data.len(), e_tag: Some(v.e_tag.to_string()), version: None });
                }
            }
            Ok((ListResult { objects, common_prefixes: common_prefixes.into_iter().collect() }, 0))
        })
        .await
    }

    async fn copy(&self, from: &Path, to: &Path) -> OsResult<()> {
        self.request(self.desc(OpKind::Copy, to, format!("copy-from:{}", from)), |id| {
            let entry = self.entry(from)?;
            let (_, eseq) = self.apply_put(id, to, entry.data, &PutMode::Overwrite, entry.attributes)?;
            Ok(((), eseq))
        })
        .await
    }

    async fn copy_if_not_exists(&self, from: &Path, to: &Path) -> OsResult<()> {
        self.request(self.desc(OpKind::Copy, to, format!("copy-if-absent-from:{}", from)), |id| {
            let entry = self.entry(from)?;
            let (_, eseq) = self.apply_put(id, to, entry.data, &PutMode::Create, entry.attributes)?;
            Ok(((), eseq))
        })
        .await
    }
}

#[derive(Debug)]
struct SimUpload {
    location: Path,
    attributes: Attributes,
    parts: Vec<PutPayload>,
    store: NodeStore,
}

#[async_trait]
impl MultipartUpload for SimUpload {
    fn put_part(&mut self, payload: PutPayload) -> UploadPart {
        self.parts.push(payload);
        Box::pin(futures::future::ready(Ok(())))
    }
    async fn complete(&mut self) -> OsResult<PutResult> {
        let cap = self.parts.iter().map(|x| x.content_length()).sum();
        let mut buf = Vec::with_capacity(cap);
        self.parts.iter().flatten().for_each(|x| buf.extend_from_slice(x));
        let opts = PutOptions { mode: PutMode::Overwrite, attributes: std::mem::take(&mut self.attributes), ..Default::default() };
        self.store.put_opts(&self.location, PutPayload::from(buf), opts).await
    }
    async fn abort(&mut self) -> OsResult<()> {
        Ok(())
    }
}

// ---------------------------------------------------------------------------
// Driver: releases parked requests one at a time according to a chooser.
// ---------------------------------------------------------------------------

#[derive(Debug, PartialEq, Eq)]
pub enum DriveEnd {
    Done,
    StepLimit,
    /// nothing parked, tasks not finished, and virtual time ran past the limit
    Stuck,
}

pub enum Choice {
    Release(u64, Decision),
    /// do not release anything now; let virtual time advance by this much
    Wait(std::time::Duration),
    Stop,
}

/// Wait until every other task on this (current_thread, paused-clock) runtime
/// is blocked: a 1 ns sleep only completes when the runtime had nothing else
/// to run and auto-advanced the clock.
pub async fn quiesce() {
    tokio::time::sleep(std::time::Duration::from_nanos(1)).await;
}

/// Drive scheduled execution.  `done()` says whether the tasks under test have
/// all finished.  `choose` is called at every quiescent point with the sorted
/// list of parked requests (possibly empty).
pub async fn drive(core: &Arc<SimCore>, done: &mut dyn FnMut() -> bool, choose: &mut dyn FnMut(&[PendingInfo]) -> Choice, max_steps: usize) -> DriveEnd {
    let mut steps = 0usize;
    let mut idle_rounds = 0u32;
    loop {
        quiesce().await;
        if done() {
            return DriveEnd::Done;
        }
        let pend = core.pending();
        if pend.is_empty() {
            // only sleepers (back-off, timers) remain: let virtual time run until
            // a request parks or the tasks finish.
            idle_rounds += 1;
            if idle_rounds > 2000 {
                return DriveEnd::Stuck;
            }
            let notified = core.arrival.notified();
            tokio::select! {
                _ = notified => {}
                _ = tokio::time::sleep(std::time::Duration::from_secs(5)) => {}
            }
            continue;
        }
        idle_rounds = 0;
        steps += 1;
        if steps > max_steps {
            return DriveEnd::StepLimit;
        }
        match choose(&pend) {
            Choice::Release(id, d) => {
                core.release(id, d);
            }
            Choice::Wait(dur) => {
                tokio::time::sleep(dur).await;
            }
            Choice::Stop => return DriveEnd::StepLimit,
        }
    }
}

// ---------------------------------------------------------------------------
// Schedule-driven driver with an optional "victim" (a node that is always
// overtaken between its GET and its PUT, to reach conflict-retry exhaustion).
// ---------------------------------------------------------------------------

pub struct SchedRun {
    pub end: DriveEnd,
    pub scheduled: u64,
}

/// `finished(i)` tells whether task i is done; `victim_task` is the index of the
/// task whose node is the victim.
pub async fn drive_schedule(
    core: &Arc<SimCore>,
    handles: &[tokio::task::JoinHandle<()>],
    schedule: &[u16],
    victim: Option<(u32, usize)>,
    max_steps: usize,
) -> SchedRun {
    let mut pos = 0usize;
    let mut victim_waits = 0u32;
    let mut foreign_commits_since_victim_get = 0usize;
    let mut scheduled = 0u64;
    let mut choose = |pend: &[PendingInfo]| -> Choice {
        // after the generated schedule is exhausted: deterministic rotation over the parked requests
        let sv = if pos < schedule.len() { schedule[pos] } else { ((pos as u32 * 7919) % 65521) as u16 & !7 };
        pos += 1;
        if sv % 8 == 7 && pos <= schedule.len() {
            return Choice::Wait(std::time::Duration::from_millis(150 * (1 + (sv as u64 >> 3) % 8)));
        }
        let mut cands: Vec<&PendingInfo> = pend.iter().collect();
        if let Some((vnode, vtask)) = victim {
            if !pend.iter().any(|p| p.desc.node == vnode) && !handles[vtask].is_finished() && victim_waits < 40 {
                victim_waits += 1;
                return Choice::Wait(std::time::Duration::from_millis(400));
            }
            let vput = pend.iter().any(|p| p.desc.node == vnode && p.desc.op == OpKind::Put);
            let need = (core.st.lock().victim_overtakes as usize).max(1);
            if vput && foreign_commits_since_victim_get < need {
                let others: Vec<&PendingInfo> = pend.iter().filter(|p| p.desc.node != vnode).collect();
                if !others.is_empty() {
                    cands = others;
                }
            }
        }
        let pick = cands[crate::core::pick_idx(sv, cands.len())];
        if let Some((vnode, _)) = victim {
            if pick.desc.node == vnode {
                if pick.desc.op == OpKind::Get {
                    foreign_commits_since_victim_get = 0;
                }
            } else if pick.desc.op == OpKind::Put {
                foreign_commits_since_victim_get += 1;
            }
        }
        scheduled += 1;
        Choice::Release(pick.id, Decision::Proceed)
    };
    let mut done = || handles.iter().all(|h| h.is_finished());
    let end = drive(core, &mut done, &mut choose, max_steps).await;
    SchedRun { end, scheduled }
}
