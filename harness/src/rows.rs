//! Row model: canonical, schema-independent rendering of rows so that loss,
//! duplication and mixing are distinguishable across chunks / batches.

use arrow_array::cast::AsArray;
use arrow_array::types::*;
use arrow_array::{Array, ArrayRef, RecordBatch};
use arrow_schema::{DataType, TimeUnit};
use bytes::Bytes;

fn f64_canon(v: f64) -> String {
    if v.is_nan() {
        "F:NaN".to_string()
    } else if v == 0.0 {
        // -0.0 and +0.0 are numerically equal; the Parquet dictionary encoder (trusted base)
        // occasionally merges them (hash-table equality on f64), so the sign of zero is not
        // part of a row's identity here
        "F:0".to_string()
    } else {
        format!("F:{:016x}", v.to_bits())
    }
}

/// canonical text of one cell; None = NULL
pub fn cell(col: &ArrayRef, row: usize, is_ts_col: bool) -> Option<String> {
    if col.is_null(row) {
        return None;
    }
    Some(match col.data_type() {
        DataType::Int64 => {
            let v = col.as_primitive::<Int64Type>().value(row);
            if is_ts_col {
                format!("T:{}", v)
            } else {
                format!("I:{}", v)
            }
        }
        DataType::Int32 => format!("I:{}", col.as_primitive::<Int32Type>().value(row)),
        DataType::UInt64 => format!("U:{}", col.as_primitive::<UInt64Type>().value(row)),
        DataType::UInt32 => format!("U:{}", col.as_primitive::<UInt32Type>().value(row)),
        DataType::Float64 => f64_canon(col.as_primitive::<Float64Type>().value(row)),
        DataType::Float32 => f64_canon(col.as_primitive::<Float32Type>().value(row) as f64),
        DataType::Boolean => format!("B:{}", col.as_boolean().value(row)),
        DataType::Timestamp(TimeUnit::Nanosecond, _) => format!("T:{}", col.as_primitive::<TimestampNanosecondType>().value(row)),
        DataType::Timestamp(TimeUnit::Microsecond, _) => format!("T:{}", col.as_primitive::<TimestampMicrosecondType>().value(row) as i128 * 1000),
        DataType::Timestamp(TimeUnit::Millisecond, _) => format!("T:{}", col.as_primitive::<TimestampMillisecondType>().value(row) as i128 * 1_000_000),
        DataType::Timestamp(TimeUnit::Second, _) => format!("T:{}", col.as_primitive::<TimestampSecondType>().value(row) as i128 * 1_000_000_000),
        DataType::Utf8 => format!("S:{}", col.as_string::<i32>().value(row)),
        DataType::LargeUtf8 => format!("S:{}", col.as_string::<i64>().value(row)),
        DataType::Utf8View => format!("S:{}", col.as_string_view().value(row)),
        DataType::Dictionary(_, _) => {
            let casted = arrow::compute::cast(col, &DataType::Utf8).ok()?;
            if casted.is_null(row) {
                return None;
            }
            format!("S:{}", casted.as_string::<i32>().value(row))
        }
        other => format!("?{:?}:{}", other, arrow::util::display::array_value_to_string(col, row).unwrap_or_default()),
    })
}

/// canonical rows of a batch: "col=val|col=val" over non-null columns sorted by name
pub fn rows_of(b: &RecordBatch) -> Vec<String> {
    let schema = b.schema();
    let mut names: Vec<(usize, String)> = schema.fields().iter().enumerate().map(|(i, f)| (i, f.name().clone())).collect();
    names.sort_by(|a, b| a.1.cmp(&b.1));
    (0..b.num_rows())
        .map(|r| {
            let mut s = String::new();
            for (i, n) in &names {
                if let Some(c) = cell(b.column(*i), r, n == "timestamp") {
                    s.push_str(n);
                    s.push('=');
                    s.push_str(&c);
                    s.push('|');
                }
            }
            s
        })
        .collect()
}

pub fn rows_of_all(bs: &[RecordBatch]) -> Vec<String> {
    let mut v: Vec<String> = bs.iter().flat_map(rows_of).collect();
    v.sort();
    v
}

pub fn decode_parquet(data: Bytes) -> Result<Vec<RecordBatch>, String> {
    use parquet::arrow::arrow_reader::ParquetRecordBatchReaderBuilder;
    let reader = ParquetRecordBatchReaderBuilder::try_new(data).map_err(|e| e.to_string())?.build().map_err(|e| e.to_string())?;
    reader.collect::<Result<Vec<_>, _>>().map_err(|e| e.to_string())
}

/// (min, max) of the "timestamp" column of decoded batches
pub fn ts_bounds(bs: &[RecordBatch]) -> Option<(i64, i64)> {
    let mut mn: Option<i64> = None;
    let mut mx: Option<i64> = None;
    for b in bs {
        let col = b.column_by_name("timestamp")?;
        for r in 0..b.num_rows() {
            if col.is_null(r) {
                continue;
            }
            let v = match col.data_type() {
                DataType::Int64 => col.as_primitive::<Int64Type>().value(r),
                DataType::Timestamp(TimeUnit::Nanosecond, _) => col.as_primitive::<TimestampNanosecondType>().value(r),
                _ => return None,
            };
            mn = Some(mn.map_or(v, |m| m.min(v)));
            mx = Some(mx.map_or(v, |m| m.max(v)));
        }
    }
    Some((mn?, mx?))
}

/// extract the unique row id (column "rid") of every row
pub fn rids(bs: &[RecordBatch]) -> Vec<i64> {
    let mut v = Vec::new();
    for b in bs {
        if let Some(col) = b.column_by_name("rid") {
            if let Some(a) = col.as_primitive_opt::<Int64Type>() {
                for r in 0..b.num_rows() {
                    v.push(a.value(r));
                }
            }
        }
    }
    v
}
