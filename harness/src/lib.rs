//! csverif: property-based verification harness for cardinalsin.
pub mod core;
pub mod props;
pub mod util;
pub mod sim;
pub mod rows;
pub mod simmeta;
pub mod gen;
pub mod qenv;
pub mod cenv;
