//! Compactor-side environment: datasets of leveled chunks (real Parquet
//! objects on the simulator), compactor factory, reachability oracle.

use crate::rows::*;
use crate::sim::*;
use crate::simmeta::SimMetadata;
use arrow_array::{ArrayRef, Float64Array, Int64Array, RecordBatch, StringArray, TimestampNanosecondArray};
use arrow_schema::{DataType, Field, Schema, TimeUnit};
use bytes::Bytes;
use cardinalsin::compactor::{Compactor, CompactorConfig};
use cardinalsin::ingester::{ChunkMetadata, ParquetWriter};
use cardinalsin::metadata::{LocalMetadataClient, MetadataCatalog, MetadataClient, ObjectStoreMetadataClient, ObjectStoreMetadataConfig};
use cardinalsin::sharding::{HotShardConfig, ShardMonitor};
use proptest::prelude::*;
use serde::{Deserialize, Serialize};
use std::collections::BTreeMap;
use std::sync::Arc;

pub const HOUR: i64 = 3_600_000_000_000;

#[derive(Clone, Debug, Serialize, Deserialize)]
pub struct ChunkSpec {
    /// hour bucket: hours before now (0..72)
    pub hours_ago: u8,
    pub rows: u8,
    pub level: u8,
    /// 0 = Timestamp(ns, UTC) schema (default), 1 = a different schema (extra column)
    pub schema: u8,
}

#[derive(Clone, Debug, Serialize, Deserialize)]
pub struct CConfig {
    pub l0_threshold: u8,
    pub l1_target: u8,
    pub l2_target: u8,
    pub max_levels: u8,
}

pub const TARGETS: [usize; 4] = [1, 1500, 6000, 1 << 30];

impl ChunkSpec {
    /// one in four specs (bits 3-4 of `schema`) describes a chunk that straddles an hour boundary
    pub fn straddles(&self) -> bool {
        (self.schema / 8) % 4 == 3
    }
}

impl CConfig {
    pub fn build(&self) -> CompactorConfig {
        CompactorConfig {
            // 2, 3, 4 and (index 3) 1: a threshold of one makes every lone L0 chunk a candidate group
            l0_merge_threshold: [2usize, 3, 4, 1][self.l0_threshold as usize % 4],
            l0_target_size: 1 << 20,
            l1_target_size: TARGETS[self.l1_target as usize % 4],
            l2_target_size: TARGETS[self.l2_target as usize % 4],
            max_levels: 1 + (self.max_levels % 4) as usize,
            retention_days: 90,
            gc_grace_period: std::time::Duration::from_secs(300),
            sharding_enabled: false,
            ..Default::default()
        }
    }
}

pub fn chunk_batch(spec: &ChunkSpec, idx: usize, now: i64, rid0: i64) -> RecordBatch {
    let n = 1 + (spec.rows % 6) as usize;
    let base = now - (spec.hours_ago as i64 % 72) * HOUR;
    let base = base - base.rem_euclid(HOUR) + 60_000_000_000; // one minute into the hour bucket
    let mut ts: Vec<i64> = (0..n).map(|k| base + (idx as i64 * 13 + k as i64 * 7) * 1_000_000_000 % (HOUR - 120_000_000_000)).collect();
    if spec.straddles() && n >= 2 {
        // the chunk spans two hour buckets: its oldest row lies in the hour before
        ts[0] -= HOUR;
    }
    // two label columns of the same type; variant 6 lists them in the opposite order (same
    // column set, different schema: merging by position would swap their values)
    let host: ArrayRef = Arc::new(StringArray::from((0..n).map(|k| Some(["web-1", "web-2", "db-1"][(idx + k) % 3])).collect::<Vec<_>>()));
    let region: ArrayRef = Arc::new(StringArray::from((0..n).map(|k| if (idx + k) % 4 == 3 { None } else { Some(["eu", "us"][(idx / 2 + k) % 2]) }).collect::<Vec<_>>()));
    let swapped = spec.schema % 8 == 6;
    let (l1, l2) = if swapped { (("region", region), ("host", host)) } else { (("host", host), ("region", region)) };
    let mut fields = vec![
        Field::new("timestamp", DataType::Timestamp(TimeUnit::Nanosecond, Some("UTC".into())), false),
        Field::new("metric_name", DataType::Utf8, false),
        Field::new(l1.0, DataType::Utf8, true),
        Field::new(l2.0, DataType::Utf8, true),
        Field::new("value_f64", DataType::Float64, true),
        Field::new("rid", DataType::Int64, false),
    ];
    let mut cols: Vec<ArrayRef> = vec![
        Arc::new(TimestampNanosecondArray::from(ts).with_timezone("UTC")),
        Arc::new(StringArray::from((0..n).map(|k| ["cpu", "mem"][(idx + k) % 2]).collect::<Vec<_>>())),
        l1.1,
        l2.1,
        Arc::new(Float64Array::from((0..n).map(|k| Some(k as f64 / 4.0)).collect::<Vec<_>>())),
        Arc::new(Int64Array::from((0..n as i64).map(|k| rid0 + k).collect::<Vec<_>>())),
    ];
    if spec.schema % 8 == 7 {
        fields.push(Field::new("extra", DataType::Int64, true));
        cols.push(Arc::new(Int64Array::from(vec![Some(1); n])));
    }
    RecordBatch::try_new(Arc::new(Schema::new(fields)), cols).unwrap()
}

pub struct CWorld {
    pub core: Arc<SimCore>,
    pub s3: bool,
    pub local: Arc<LocalMetadataClient>,
    /// rows by chunk path (write-once objects: memoised)
    pub memo: BTreeMap<String, Vec<String>>,
    pub initial_rows: Vec<String>,
    pub initial_chunks: Vec<String>,
}

impl CWorld {
    pub fn metadata(&self, node: u32) -> Arc<dyn MetadataClient> {
        if self.s3 {
            Arc::new(ObjectStoreMetadataClient::new(self.core.node(node), ObjectStoreMetadataConfig::default()))
        } else {
            Arc::new(SimMetadata::new(node, self.core.clone(), self.local.clone()))
        }
    }

    pub fn compactor(&self, node: u32, cfg: &CConfig, pins: Option<cardinalsin::compactor::ChunkPinRegistry>) -> Arc<Compactor> {
        let c = Compactor::new(cfg.build(), self.core.node(node), self.metadata(node), crate::qenv::storage_config(), Arc::new(ShardMonitor::new(HotShardConfig::default())));
        Arc::new(match pins {
            Some(p) => c.with_pin_registry(p),
            None => c,
        })
    }

    /// Build the dataset: objects + catalog entries at the requested levels
    /// (free-running; uses node 90).
    pub async fn build(core: Arc<SimCore>, s3: bool, chunks: &[ChunkSpec]) -> Result<CWorld, String> {
        let mut w = CWorld { core: core.clone(), s3, local: Arc::new(LocalMetadataClient::new()), memo: BTreeMap::new(), initial_rows: Vec::new(), initial_chunks: Vec::new() };
        let md: Arc<dyn MetadataClient> = if s3 { Arc::new(ObjectStoreMetadataClient::new(core.node(90), ObjectStoreMetadataConfig::default())) } else { w.local.clone() };
        let now = chrono::Utc::now().timestamp_nanos_opt().unwrap();
        let writer = ParquetWriter::new();
        let mut rid = 0i64;
        let mut dummy = 0usize;
        for (i, c) in chunks.iter().enumerate() {
            let b = chunk_batch(c, i, now, rid);
            rid += b.num_rows() as i64;
            let bytes: Bytes = writer.write_batch(&b).map_err(|e| e.to_string())?;
            let path = format!("t/data/year=2026/init/chunk_{:03}.parquet", i);
            core.poke(&path, bytes.clone());
            let (mn, mx) = ts_bounds(&[b.clone()]).unwrap();
            let meta = ChunkMetadata { path: path.clone(), min_timestamp: mn, max_timestamp: mx, row_count: b.num_rows() as u64, size_bytes: bytes.len() as u64 };
            let level = (c.level % 4) as usize;
            if level == 0 {
                md.register_chunk(&path, &meta).await.map_err(|e| format!("{:?}", e))?;
            } else {
                // chain of catalog-only dummy chunks: d0 (L0) -> d1 (L1) -> ... -> path (level)
                let mut prev: Option<String> = None;
                for l in 0..=level {
                    let name = if l == level {
                        path.clone()
                    } else {
                        dummy += 1;
                        format!("dummy/d{}.parquet", dummy)
                    };
                    let m = if l == level { meta.clone() } else { ChunkMetadata { path: name.clone(), min_timestamp: mn, max_timestamp: mx, row_count: 0, size_bytes: 1 } };
                    md.register_chunk(&name, &m).await.map_err(|e| format!("{:?}", e))?;
                    if let Some(p) = prev {
                        md.complete_compaction(&[p], &name).await.map_err(|e| format!("{:?}", e))?;
                    }
                    prev = Some(name);
                }
            }
            let rows = rows_of_all(&[b]);
            w.initial_rows.extend(rows.iter().cloned());
            w.memo.insert(path.clone(), rows);
            w.initial_chunks.push(path);
        }
        w.initial_rows.sort();
        Ok(w)
    }

    /// (path, level) of every chunk in the catalog, read without going through any gate
    pub async fn catalog(&self) -> Result<Vec<(String, u32, u64)>, String> {
        if self.s3 {
            let p = match self.core.find_path("catalog.json") {
                Some(p) => p,
                None => return Ok(vec![]),
            };
            let data = self.core.peek(&p).ok_or("catalog vanished")?;
            let cat: MetadataCatalog = serde_json::from_slice(&data).map_err(|e| e.to_string())?;
            let mut v: Vec<(String, u32, u64)> = cat.chunks.iter().map(|(p, c)| (p.clone(), c.level, c.base.size_bytes)).collect();
            v.sort();
            Ok(v)
        } else {
            let mut v: Vec<(String, u32, u64)> = self.local.list_chunks().await.map_err(|e| format!("{:?}", e))?.into_iter().map(|c| (c.chunk_path.clone(), self.local.verif_chunk_level(&c.chunk_path).unwrap_or(999), c.size_bytes)).collect();
            v.sort();
            Ok(v)
        }
    }

    pub fn rows_of_chunk(&mut self, path: &str) -> Option<Vec<String>> {
        if let Some(r) = self.memo.get(path) {
            // the object must still exist to be readable
            if self.core.exists(path) {
                return Some(r.clone());
            }
            return None;
        }
        let data = self.core.peek(path)?;
        let rows = rows_of_all(&decode_parquet(data).ok()?);
        self.memo.insert(path.to_string(), rows.clone());
        Some(rows)
    }

    /// multiset of rows reachable through the catalog (registered chunk whose object exists)
    pub async fn reachable(&mut self) -> Result<Vec<String>, String> {
        let cat = self.catalog().await?;
        let mut rows = Vec::new();
        for (p, _, _) in cat {
            if p.starts_with("dummy/") {
                continue;
            }
            if let Some(r) = self.rows_of_chunk(&p) {
                rows.extend(r);
            }
        }
        rows.sort();
        Ok(rows)
    }
}

pub fn chunk_spec() -> impl Strategy<Value = ChunkSpec> {
    (prop_oneof![4 => 0u8..3, 1 => 0u8..72], 0u8..6, prop_oneof![5 => Just(0u8), 2 => Just(1u8), 1 => 2u8..4], any::<u8>()).prop_map(|(hours_ago, rows, level, schema)| ChunkSpec { hours_ago, rows, level, schema })
}

pub fn cconfig() -> impl Strategy<Value = CConfig> {
    (0u8..4, 0u8..4, 0u8..4, 0u8..4).prop_map(|(l0_threshold, l1_target, l2_target, max_levels)| CConfig { l0_threshold, l1_target, l2_target, max_levels })
}
