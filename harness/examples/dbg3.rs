fn main(){
    let args: Vec<String> = std::env::args().collect();
    let rf: serde_json::Value = serde_json::from_str(&std::fs::read_to_string(&args[1]).unwrap()).unwrap();
    let p = csverif::props::all().into_iter().find(|p| p.id==rf["property"].as_str().unwrap()).unwrap();
    let subs=(p.subs)();
    let sc=subs.iter().find(|s| s.name()==rf["sub"].as_str().unwrap()).unwrap();
    let n: u32 = args.get(2).and_then(|s| s.parse().ok()).unwrap_or(20);
    let t=std::time::Instant::now();
    for _ in 0..n { let _ = sc.replay(&rf["case"]); }
    println!("{:?} per case", t.elapsed()/n);
}
