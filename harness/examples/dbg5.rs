use std::sync::Arc;
fn main() {
    let data = std::fs::read(std::env::args().nth(1).unwrap()).unwrap();
    let mut frames = Vec::new();
    let mut p = 0usize;
    while p + 4 <= data.len() && frames.len() < 8 {
        let hl = u16::from_le_bytes([data[p], data[p + 1]]) as usize;
        let bl = u16::from_le_bytes([data[p + 2], data[p + 3]]) as usize;
        p += 4;
        let h = &data[p..(p + hl).min(data.len())];
        p = (p + hl).min(data.len());
        let b = &data[p..(p + bl).min(data.len())];
        p = (p + bl).min(data.len());
        frames.push(arrow_flight::FlightData { flight_descriptor: None, data_header: bytes::Bytes::copy_from_slice(h), app_metadata: bytes::Bytes::new(), data_body: bytes::Bytes::copy_from_slice(b) });
    }
    println!("{} frames: {:?}", frames.len(), frames.iter().map(|f| (f.data_header.len(), f.data_body.len())).collect::<Vec<_>>());
    // decode independently
    if let Ok(schema) = arrow_schema::Schema::try_from(&frames[0]) {
        println!("schema: {:?}", schema);
        let schema = Arc::new(schema);
        for f in &frames[1..] {
            match std::panic::catch_unwind(|| arrow_flight::utils::flight_data_to_arrow_batch(f, schema.clone(), &Default::default())) {
                Ok(Ok(b)) => println!("batch rows={} cols={}", b.num_rows(), b.num_columns()),
                Ok(Err(e)) => println!("batch err {}", e),
                Err(_) => println!("decoder panicked"),
            }
        }
    }
    let stack: usize = std::env::var("STACK_KB").ok().and_then(|s| s.parse().ok()).unwrap_or(2048) * 1024;
    let h = std::thread::Builder::new().stack_size(stack).spawn(move || {
    let rt = tokio::runtime::Builder::new_current_thread().enable_all().build().unwrap();
    let r = rt.block_on(async {
        let ing = csverif::props::c17::receiver().await.ingester;
        let svc = cardinalsin::api::ingest::flight_ingest::FlightIngestService::new(Arc::clone(&ing));
        svc.process_stream(frames.into_iter()).await
    });
    println!("result: {:?}", r.map_err(|e| e.to_string()));
    }).unwrap();
    h.join().unwrap();
}
