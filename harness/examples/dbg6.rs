// replay a C06 case with the crate's own log output visible
fn main() {
    tracing_subscriber::fmt().with_env_filter("warn").with_writer(std::io::stderr).init();
    let text = std::fs::read_to_string(std::env::args().nth(1).unwrap()).unwrap();
    let v: serde_json::Value = serde_json::from_str(&text).unwrap();
    let case: csverif::props::c06::Case = serde_json::from_value(v["case"].clone()).unwrap();
    let out = csverif::props::c06::exec(&case);
    println!("{:?}", out.failure);
}
