// search schedules for a crafted C02 case (reader sharing a client, late responses)
use csverif::props::c02::*;
fn main() {
    let mut x: u64 = 0x1234567;
    let mut hits = 0;
    for i in 0..20000 {
        let mut sched = Vec::new();
        for _ in 0..40 { x ^= x << 13; x ^= x >> 7; x ^= x << 17; sched.push((x & 0xfff8) as u16); }
        let case = Case {
            clients: vec![
                vec![Op::Register { path: 1, lo_h: 1, off: 1, span_h: 0 }, Op::Register { path: 2, lo_h: 2, off: 1, span_h: 0 }],
                vec![Op::Delete { path: 7 }],
            ],
            schedule: sched,
            victim: None,
            initial: vec![(0, 0)],
            readers: vec![1],
            late_responses: true,
        };
        let out = exec(&case);
        if let Some(f) = out.failure { hits += 1; if hits <= 3 { println!("{} {} :: {}", i, f.signature, &f.message[..f.message.len().min(200)]); } }
    }
    println!("hits {}", hits);
}
