use csverif::qenv::*;
use csverif::props::c04::*;
use std::sync::Arc;
#[tokio::main]
async fn main() {
    let args: Vec<String> = std::env::args().collect();
    let rf: serde_json::Value = serde_json::from_str(&std::fs::read_to_string(&args[1]).unwrap()).unwrap();
    let case: Case = serde_json::from_value(rf["case"].clone()).unwrap();
    let d = &case.data;
    let now = chrono::Utc::now().timestamp_nanos_opt().unwrap();
    let b = d.batches(now);
    let store: Arc<dyn object_store::ObjectStore> = Arc::new(object_store::memory::InMemory::new());
    let env = ingest(store, d.backend, &b, d.schema()).await.unwrap();
    let node = query_node(&env, false).await.unwrap();
    for q in &case.queries {
        let (sql, _) = to_sql(d, now, true, q);
        println!("SQL: {}", sql);
        let plan = node.engine.analyze(&sql).await.unwrap();
        let opt = node.engine.context().state().optimize(&plan);
        println!("OPT: {}", opt.map(|p| format!("{}", p.display_indent())).unwrap_or_else(|e| format!("ERR {}", e)));
        println!("tr: {:?}", node.engine.extract_time_range(&sql).await.map(|r| (r.start, r.end)));
        println!("chunks: {:?}", env.metadata.list_chunks().await.unwrap().iter().map(|c| (c.min_timestamp, c.max_timestamp)).collect::<Vec<_>>());
        println!("{:?}", node.query(&sql).await.map(|b| csverif::rows::rows_of_all(&b)));
        println!("ref {:?}", reference(&sql, &env.all, env.schema.clone()).await.map(|b| csverif::rows::rows_of_all(&b)));
    }
}
