use csverif::core::SubCheck;
fn main(){
    let args: Vec<String> = std::env::args().collect();
    let rf: serde_json::Value = serde_json::from_str(&std::fs::read_to_string(&args[1]).unwrap()).unwrap();
    let p = csverif::props::all().into_iter().find(|p| p.id==rf["property"].as_str().unwrap()).unwrap();
    let subs=(p.subs)();
    let sc=subs.iter().find(|s| s.name()==rf["sub"].as_str().unwrap()).unwrap();
    println!("{:#?}", sc.replay(&rf["case"]));
}
