fn main() {
    let v = -2.5e299f64;
    let s = serde_json::to_string(&serde_json::json!(v)).unwrap();
    let back: serde_json::Value = serde_json::from_str(&s).unwrap();
    println!("{} -> {:?} eq={}", s, back.as_f64(), back.as_f64() == Some(v));
    // how common?
    let mut bad = 0u64; let mut n = 0u64;
    let mut x: u64 = 0x9E3779B97F4A7C15;
    for _ in 0..1_000_000 {
        x ^= x << 13; x ^= x >> 7; x ^= x << 17;
        let f = f64::from_bits(x);
        if !f.is_finite() { continue; }
        n += 1;
        let s = serde_json::to_string(&f).unwrap();
        let b: f64 = serde_json::from_str(&s).unwrap();
        if b != f { bad += 1; }
    }
    println!("random bits: {}/{} differ", bad, n);
    let mut bad2 = 0; let mut n2 = 0;
    for i in 0..1_000_000u64 {
        x ^= x << 13; x ^= x >> 7; x ^= x << 17;
        let f = (x % 1_000_000_000) as f64 / 1000.0 * (1.0 + (i % 7) as f64 * 0.1);
        n2 += 1;
        let s = serde_json::to_string(&f).unwrap();
        let b: f64 = serde_json::from_str(&s).unwrap();
        if b != f { bad2 += 1; }
    }
    println!("metric-like: {}/{} differ", bad2, n2);
}
